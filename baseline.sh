#!/bin/bash
# Runs the repository's pinned suite with no verification build tag / overlay (hooks off)
# and prints the number of passing tests (BASELINE.json: 440).
export GOFLAGS=-mod=mod GOPROXY=off GOSUMDB=off GOTOOLCHAIN=local
cd /repo && go test -json -vet=off -count=1 -timeout 25m ./... 2>&1 | python3 -c '
import sys, json
p = f = 0
for l in sys.stdin:
    try: e = json.loads(l)
    except Exception: continue
    if e.get("Test"):
        if e.get("Action") == "pass": p += 1
        elif e.get("Action") == "fail": f += 1; print("FAIL", e["Package"], e["Test"])
print("passed=%d failed=%d" % (p, f))
sys.exit(0 if f == 0 and p >= 440 else 1)'
