#!/bin/bash
# tools/runmutants.sh [Cxx ...]: for every mutant patch: apply to /repo, run the pinned suite
# (must still pass), run the property's quick check (must report a VIOLATION), revert.
cd /verif
props="$@"; [ -z "$props" ] && props=$(ls mutants)
git -C /repo diff --quiet || { echo "/repo has uncommitted changes"; exit 2; }
for p in $props; do
  for m in mutants/$p/*.diff; do
    [ -f "$m" ] || continue
    git -C /repo apply "$PWD/$m" || { echo "$p $(basename $m): DOES-NOT-APPLY"; continue; }
    if ./baseline.sh >/tmp/mut_base.log 2>&1; then suite=pass; else suite=FAIL; fi
    VERIF_DIR_SAVE=1 VERIF_BUDGET_S=${MUT_BUDGET:-120} ./run.sh $p quick >/tmp/mut_check.log 2>&1; rc=$?
    nv=$(grep -c '^VIOLATION' /tmp/mut_check.log)
    git -C /repo checkout -- .
    if [ $rc -eq 1 ] && [ $nv -gt 0 ]; then verdict=CAUGHT; else verdict="MISSED(rc=$rc)"; fi
    echo "$p $(basename $m .diff): suite=$suite check=$verdict violations=$nv"
  done
done
git -C /verif checkout -- evidence 2>/dev/null
rm -rf /verif/replays
