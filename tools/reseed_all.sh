#!/bin/bash
# tools/reseed_all.sh [ids...]: apply every stored seeded change to /repo in turn, run the property's quick check,
# revert, and refresh the "check" section of its meta.json. /repo must be clean.
cd /verif
ids="$@"; [ -z "$ids" ] && ids=$(ls seeded | grep -E '^C[0-9]+-' )
for id in $ids; do
  prop=${id%%-*}
  git -C /repo diff --quiet || { echo "/repo dirty"; exit 2; }
  git -C /repo apply /verif/seeded/$id/patch.diff || { echo "$id: patch does not apply"; continue; }
  VERIF_BUDGET_S=${SEED_BUDGET:-200} ./run.sh $prop quick > /tmp/reseed.$id.out 2>&1; rc=$?
  git -C /repo checkout -- .
  nv=$(grep -c '^VIOLATION' /tmp/reseed.$id.out)
  verdict=MISSED; [ $rc -eq 1 ] && [ $nv -gt 0 ] && verdict=CAUGHT
  first=$(grep -m1 '^VIOLATION' /tmp/reseed.$id.out | cut -c1-400)
  python3 - "seeded/$id/meta.json" "$verdict" "$nv" "$first" <<'PY'
import json,sys
p,verdict,nv,first=sys.argv[1:5]
m=json.load(open(p))
m["check"].update({"verdict":verdict,"violation_lines":int(nv),"first_violation":first})
json.dump(m,open(p,"w"),indent=1)
PY
  echo "$id: $verdict ($nv)"
  rm -f /tmp/reseed.$id.out
done
git -C /verif checkout -- evidence 2>/dev/null
