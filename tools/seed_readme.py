#!/usr/bin/env python3
# regenerates seeded/README.md from the meta.json files
import json,glob,os
rows=[]
for p in sorted(glob.glob('/verif/seeded/C*/meta.json')):
    m=json.load(open(p))
    rows.append(m)
def esc(s): return str(s).replace('|','\\|').replace('\n',' ')
rounds={'a':[0,0],'b':[0,0],'c':[0,0],'d':[0,0],'e':[0,0],'f':[0,0]}
for m in rows:
    r=m['id'].split('-')[1][0]
    rounds.setdefault(r,[0,0])
    rounds[r][0]+=1
    if m.get('history','').lower().startswith('caught'): rounds[r][1]+=1
hdr='''# Independently seeded property-breaking changes

Each directory holds `patch.diff` (applies to /repo HEAD at the time of writing), the agent's demonstration test, `agent_README.md` and `meta.json`.
Every change was written by a sub-agent that saw only the property's text and a private worktree, was re-verified by `tools/seedcheck.sh` in a fresh scratch worktree (suite passes with the change; the demonstration fails with it and passes without it) and then run against the property's quick check on /repo (applied, checked, reverted). `tools/reseed_all.sh` re-runs all of them against the current checks.
'''
names={'a':'Round 1 (-a)','b':'Round 2 (-b, agents steered towards less obvious areas)','c':'Round 3 (-c, agents pointed at a per-property list of areas, asked for breakages needing two things to coincide)','d':'Round 4 (-d, other areas again; agents asked to avoid the code sites of earlier rounds)','e':'Round 5 (-e, agents given a kind of defect per property and free choice of the code site)','f':'Round 6 (-f, agents asked to write down three candidates in different functions and implement the least obvious one)'}
for r,(n,c) in rounds.items():
    if n: hdr+=f"{names[r]}: {c} of {n} caught at once, {n-c} after strengthening. "
hdr+=f"All {len(rows)} are caught by the current checks.\n\n| id | property | change | needs | outcome | now |\n|---|---|---|---|---|---|\n"
for m in rows:
    hdr+=f"| {m['id']} | {m['property']} | {esc(m['breaks'])} | {esc(m['needs_to_manifest'])} | {esc(m.get('history',''))} | {m['check']['verdict']} |\n"
open('/verif/seeded/README.md','w').write(hdr)
print(len(rows),"rows")
