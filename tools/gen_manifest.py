#!/usr/bin/env python3
"""Writes /verif/MANIFEST.json from the table below (kept next to the checks so the two stay in step)."""
import json, os
V = os.path.dirname(os.path.dirname(os.path.abspath(__file__)))

MC = "model checking: bounded exhaustive enumeration on the real code"
E1NOTE = "trusts the reference interpreter refjet (mc/internal/refjet; shares no code with jet; cases whose outcome the statement does not fix are skipped and counted); nothing outside the stated alphabet and bounds is covered"
E1TECH = "bounded exhaustive enumeration of generator-ASTs, each printed to jet source, executed on the real engine and compared with the reference interpreter's trace"
checks = {
 "C01": dict(engine="E1", ref="6/C01", technique=E1TECH,
   text="Every context of <=2 (thorough 3) nested frames (if/else/range/range-else/block/yield/content/include/try/catch/exec/includeIfExists, after / in the catch body of a try abandoned inside a safe writer) x 3 outer shapes (plain, root layout of an extends chain, leaf block rendered by the root's yield) x 27 values (incl. numeric/bool kinds with String()/Error() methods) x 28 action forms (plain, piped function, html, 5 safe writers in 3 call forms and in 2 multi-argument forms whose middle argument executes a template using another safe writer) x 4 escapers is rendered by jet and must equal, byte for byte, literal text ++ E(printed value). Exhaustive inside that product.", note=E1NOTE),
 "C03": dict(engine="E1", ref="6/C03", technique="bounded exhaustive enumeration of atom sequences (text/action/comment/import) under 7 delimiter configurations, executed on the real engine and compared with an atom-level reference renderer",
   text="Every sequence of <=4 (thorough 5) atoms over ~28 letters (text incl. lone delimiter bytes, all whitespace mixes, runes ending in 0x85/0xA0, \\v, actions in 7 trim/spacing variants, 4 comment bodies plus one per overlap of the comment markers) under 7 delimiter/comment configurations, plus headers with import clauses, must render exactly what a 40-line reference over the atom list renders; ambiguous concatenations are detected by an independent scan and skipped.", note="trusts the atom-level reference (mc/internal/props/c03.go c03Ref) and the ambiguity scan; delimiter configurations are the 7 listed ones"),
 "C04": dict(engine="E1", ref="6/C04", technique=E1TECH,
   text="All single-operator expressions over a 25-operand alphabet (incl. integers beyond 2^53, negative integers and negative non-integral floats), all two-operator trees (13 binary, 3 unary, ternary) over 8 operands, all three-binary-operator trees over one (thorough two) operator(s) per precedence level, every operator x 10 left x 6 right operand shapes tight vs spaced, and all depth-2 trees over the lazy connectives with side-effecting probes (call log compared); each printed with minimal and with full parentheses.", note=E1NOTE+"; mixed-kind operations the statement does not define are skipped"),
 "C05": dict(engine="E1", ref="6/C05", technique=E1TECH,
   text="All if/else-if/else chains up to two else-if arms over a 31-value condition alphabet, and every nesting of depth <=2 (thorough 3) of if and range units over 21 rangeables (slices, arrays, pointers, maps, channels, ints(), index-providing and index-less custom rangers, nil, non-rangeable) x 6 variable forms x else.", note=E1NOTE+"; truthiness of zero-valued structs/arrays is treated as unspecified; 2-entry maps accept either iteration order"),
 "C07": dict(engine="E1", ref="6/C07", technique=E1TECH,
   text="All statement sequences of <=3 over 10 atoms (:=, =, multi-assignment, discard, reads of x, y and '.') inside each of 24 frames (if, if-let, 5 range forms, try and catch bodies of tries abandoned inside a range or an if-let, block/yield/include with and without context and parameters, a parameter-less block yielded with a named argument, yield-with-content incl. content shown with its own context / twice / inside a range); v,ok lookup forms with absent keys;, nested to depth 2 (thorough 3), under 4 variable origins (local, VarMap, global, both); the caller's VarMap after Execute is compared too; loop-variable capture over every ranger kind.", note=E1NOTE),
 "C08": dict(engine="E1", ref="6/C08", technique=E1TECH,
   text="All template sets with an extends chain of 1-3 and 0-2 imports in which every non-root template defines any subset of two block names (plain, conditional or nested placement) x 8 positions of the yield/definition site in the root layout; 3-parameter blocks with every default pattern x every ordered subset of named arguments x 3 block homes; content nesting, recursion and caller-scope variants; sibling sequences of <=3 over 8 items (content that shows the enclosing pending content, wrappers with/without parameters and content, in-place definitions with/without default content, yield content) at top level and inside an outer block yielded with content.", note=E1NOTE+"; positional yield arguments, parameters with neither argument nor default and content-less yields of content-showing blocks are unspecified"),
 "C09": dict(engine="E1", ref="6/C09", technique=E1TECH,
   text="Call kind (include, exec, includeIfExists as action and as condition, exec as an argument of isset) x call site nested <=2 deep over 7 frames x context (none, value, nil-valued) x 6 name forms (one computed from the caller's context) x 3 referrer depths x 29 callee shapes (return at every position and through include / includeIfExists / yield given a context, return followed by each statement kind, extends chains 1-3, declarations, caller blocks, failing, missing); after the call the caller probes its variables, context and blocks.", note=E1NOTE+"; a range reached after a return, and a return inside an included template while the includer is inside a range, ; a return below includeIfExists while an exec is in progress is unspecified"),
 "C12": dict(engine="E1", ref="6/C12", technique=E1TECH,
   text="~85 failure classes x 4 files (executed, included, imported library block, root layout) x 7 line layouts x 7 nestings: Execute must return an error (no panic), the writer must hold exactly the reference prefix, and for failures jet detects itself the message must name the failing file and a line inside the failing action's opening delimiters.", note=E1NOTE+"; the message format is matched loosely (first template path in the message, first integer after it); failures reported by built-in functions (len, isset, map, exec) only need to be errors"),
 "C13": dict(engine="E1", ref="6/C13", technique=E1TECH,
   text="Try bodies built from every sequence of <=3 (thorough 4) nested frames over 10 frame kinds x failure (none / innermost point / after the innermost frame / end; identifier, error panic, string panic) x 4 catch forms x 4 placements (incl. a block whose content fails once while shown inside the try) x data present / nil; afterwards the program probes context, variables, catch variable and {{yield content}}; compared byte for byte with the transactional reference.", note=E1NOTE),
 "C15": dict(engine="E1", ref="6/C15", technique="exhaustive enumeration of name spellings x entry points, replayed on the real Set against a path.Clean reference resolver (recording Loader/Cache)",
   text="Every name spelling of <=4 segments over {a,b,.,..,empty} x relative/absolute x trailing slash, at 9 entry points, from referrers at depth 0-2, under 3 extension lists, with development mode off and on, is run on the real Set with a recording Loader and Cache; every path handed to either must be absolute and clean, must be the reference resolution of the name (plus a configured extension), and the file opened must be the resolution's. Exhaustive inside that alphabet, nothing outside it.",
   note="trusts path.Join/path.Clean as the definition of 'lexically clean'; backslash spellings excluded (platform dependent)"),
}
E2NOTE = "trusts the reference state machine written next to the check; successors are built by replaying the shortest path on a fresh real object plus one operation, so every transition is one conformance check"
checks.update({
 "C02": dict(engine="E4", ref="6/C02", technique="bounded exhaustive enumeration of source strings in crash-isolated worker subprocesses (bisection isolates inputs that kill or hang the process), totality oracle + structural recogniser",
   text="Under 7 delimiter configurations: every sequence of <=3 (thorough 4) tokens in one action over a 72-token alphabet (incl. non-ASCII digits) (with and without separating spaces), every sequence of <=4 (thorough 5) whole segments over 28 constructs, every byte string of <=3 over 20 bytes in text and action position, every byte prefix and single-token edit of a corpus, and extends/import heads over 8 referenced-template sets (missing, unparsable, chain, self, cycle). The process must survive, return template xor error, name template and an in-range line in syntax errors, leave no goroutine, and reject structurally broken segment sequences.",
   note="the structural recogniser only gives a verdict for the mistakes the statement lists (unterminated action/comment, missing/surplus end, extends/import after content); a hang verdict needs one input alone to exceed the batch timeout three times"),
 "C06": dict(engine="E1", ref="6/C06", technique="bounded exhaustive enumeration of access paths into a fixed universe of Go types, each rendered by the real engine and compared with an independent reflective resolver",
   text="Every access path of <=2 (thorough 3) steps over a 92-step alphabet (fields, [\"name\"], variable/int/uint/float/nil/bool/undefined indexes, method calls, slices with each bound omitted/in range/out of range/wrong kind) from 11 roots (value, pointer, nil embedded pointer, global, context, early-shadow struct, map, pointer to interface, nil, undefined) into a 10-type universe (incl. maps keyed by named string / integer types): stored value rendered, listed failures are errors (never panics), absent map keys are nil.", note="the universe of Go types is hand-written (Go cannot synthesise types with methods at run time); composite terminal values are only required not to fail; pointer-receiver methods on non-addressable values, postfix after a slice, a.b on an absent map key are unspecified"),
 "C10": dict(engine="E2", ref="6/C10", technique="explicit enumeration of Execute histories on one goroutine (pooled Runtime provably reused), each call compared with its own baseline taken on an emptied pool; structural hash of the parsed templates",
   text="Every history of <=3 (thorough 4) Execute calls over 27 executions (successes, tries abandoned after writing, probes for pending content/context/variables/blocks/writer/nested ranges/struct-field cache, failures at every kind of point, error/string/runtime panics, range-else over empty values) with GOMAXPROCS=1 and GC off; every call must equal its baseline on a fresh pool and no parsed template may change.", note="pool reuse is measured (evidence: runtime_reused_in_consecutive_executions); residue that none of the 7 probes can display would go unnoticed"),
 "C11": dict(engine="E3", ref="6/C11", technique="stateless model checking of the implementation: iteratively preemption-bounded DFS over all interleavings of jet's synchronisation operations (sync shim injected with go build -overlay) and harness callbacks under a cooperative scheduler; linearizability via porcupine; separate free-running -race pass",
   text="8 closed scenarios of 2-3 threads on one Set (first loads of one template, globals register, two writers of different globals, struct-field cache population for a new type, development mode vs loader edits, Parse extending a template loaded concurrently, two Executes of a rich template, first include from two executions): every schedule with <=2 (thorough 3) preemptions at every RWMutex/sync.Map/sync.Pool operation, directly after every Map store and write-unlock (publication) and at every harness callback; no deadlock, no panic, serial results, linearizable globals history. Data races proper are covered only by the non-exhaustive -race pass.", note="interleavings inside a critical section and memory-model effects are not explored; the lexer goroutine and its channel are left to the Go runtime (argued deterministic); if the overlay stops compiling the check degrades to the race pass and says so (hooks: off)"),
 "C14": dict(engine="E1", ref="6/C14", technique="bounded exhaustive enumeration of call shapes, each executed on the real engine and compared with the direct Go invocation (metamorphic equality of all surface forms) and the recorded call log",
   text="9 callable kinds x argument tuples (all accepted spellings incl. conversions and nested calls as arguments, one rejected argument per position, wrong counts) x every surface form (call, prefix, piped, piped prefix, slot at each index in both spellings), chained pipelines with call logs, forms that must be rejected, and ~770 built-in cases against the Go functions they expose.", note="fractional float to integer parameters and exotic conversions are unspecified"),
 "C16": dict(engine="E2", ref="6/C16", technique="explicit-state search (all histories to a depth without merging + BFS over canonical model states) over Set/loader operations; every transition replayed on a fresh real Set against a reference cache machine",
   text="Per configuration (development mode x custom cache x 6 extension lists x 2 start states; 9 quick, 14 thorough): every history of <=2 (thorough 3) operations over a 35-operation menu and a BFS to depth 4 (thorough 6) over canonical states; success, rendered content, exact loader Exists/Open trace, cache writes where none are allowed, pointer identity, and the remembered-name invariant.", note=E2NOTE+"; under which cache key(s) a template is remembered is not fixed by the statement: the implementation must be consistent with one of 6 key/lookup policies for a whole history"),
 "C17": dict(engine="E1", ref="6/C17", technique="same enumeration as C06; isset(p), isset(p,q), p|isset and v,ok lookups on the real engine against the reflective resolver",
   text="isset(p) for every identifier/field/index path of <=2 (thorough 3) steps of the C06 universe, isset(p,q) for every pair of paths of <=1 step (thorough: one side <=2), p|isset, p|isset(_), p|isset(x,_) and p|isset(q) for every p whose evaluation is defined, and v,ok := / = m[k] for 6 maps x 9 keys: never fails, true iff every argument resolves to a non-nil value.", note="isset of call/slice expressions and of literals is unspecified"),
 "C18": dict(engine="E1", ref="6/C18", technique=E1TECH+"; additionally the syntax twin of every API program is executed on the real engine",
   text="Every sequence of <=3 operations over {Let, Set, SetOrLet, LetGlobal, Resolve, MustResolve, Context via the Go API; template :=, =, read} x 7 call sites x 4 variable origins (incl. nil VarMap) x outer declaration (none, a value, nil); YieldBlock for 3 contexts x 3 block homes x 7 sites; Arguments.Get/NumOfArguments/IsSet/ParseInto in every call shape against a reflected function.", note=E1NOTE+"; LetGlobal with a nil VarMap and YieldBlock of blocks with parameters are unspecified"),
 "C19": dict(engine="E2", ref="6/C19", technique="explicit-state search (BFS to fixpoint + all short histories) for the in-memory loader; exhaustive enumeration of directory trees, edit histories and loader stacks on real temp directories for the file-system and multi loaders",
   text="InMemLoader: BFS over reference states to a fixpoint with Set/Delete in 8 spellings, plus every history of <=2 (thorough 3) operations, every spelling queried after every operation. OS/http loaders: all 121 trees over {a,b} to depth 2 x every clean path of <=3 segments, 44 trees with a symbolic link (consistency only: Exists => Open yields the bytes of the file the path leads to), and every edit history of <=3 (thorough 4) operations. Embed loader: one embedded tree. Multi: all 729 stacks of 3 members x 2 member kinds x 4 ways of assembling, plus every history of <=5 (thorough 6) operations over member Set/Delete, AddLoaders, ClearLoaders and separate Exists / Open calls.", note=E2NOTE+"; the embed loader is checked on one immutable tree; temp directories live under $TMPDIR and are removed"),
 "C20": dict(engine="E4", ref="6/C20", technique="bounded exhaustive enumeration of grammar-generated templates, parsed by the real parser and walked in crash-isolated workers, against a reflective traversal by pointer identity",
   text="Every production (39 statement, 48 expression) in every slot of every production, and a third level below, = 303k templates the parser accepts; every statement/expression node must be handed to a descending visitor exactly once, containers at most once, no nil or foreign node, termination.", note="containers (ListNode, PipeNode, CommandNode, SetNode, parameter lists, catch) are only required not to be visited twice"),
})
not_built = {}
ids = ["C%02d" % i for i in range(1, 21)]
m = {
 "version": 1,
 "setup_cmd": "./run.sh setup",
 "hooks": {
   "guard": "none (go build -overlay generated at run time; no hook commits in /repo)",
   "enable": "checks build /repo through `replace github.com/CloudyKit/jet/v6 => /repo`; C11 additionally passes -overlay with a generated sync shim, /repo is never written",
   "baseline_off_cmd": "./baseline.sh",
   "source_commits": [],
   "add_only": True,
 },
 "engines": [
   {"name": "E1", "path": "mc/internal/refjet + mc/internal/props", "serves_properties": [], "kind_free_text": "program-space enumeration against a reference interpreter / resolver / direct invocation"},
   {"name": "E2", "path": "mc/internal/props (c10, c16, c19)", "serves_properties": [], "kind_free_text": "explicit-state search over operation histories, replayed on fresh real objects against a reference state machine"},
   {"name": "E3", "path": "mc/cmd/c11 + mc/overlay/verifsync.go.txt + mc/internal/c11scen", "serves_properties": [], "kind_free_text": "cooperative scheduler + preemption-bounded DFS over a sync shim injected by go build -overlay; free-running -race pass"},
   {"name": "E4", "path": "mc/internal/core/workers.go + mc/internal/props (c02, c20)", "serves_properties": [], "kind_free_text": "crash-isolated worker subprocess enumeration with bisection"},
 ],
 "checks": [],
 "not_applicable": [],
 "notes": "See DESIGN.md. ./run.sh <Cxx> quick|thorough rebuilds the harness against /repo's working tree on every call.",
}
for i in ids:
    if i in checks:
        c = checks[i]
        m["checks"].append({
          "property_id": i,
          "quick_cmd": "./run.sh %s quick" % i,
          "thorough_cmd": "./run.sh %s thorough" % i,
          "evidence_file": "evidence/%s.json" % i,
          "replay_cmd_template": "./run.sh replay {path}",
          "engine": c["engine"],
          "level_claimed": {"category": "model_checking", "text": c["text"], "design_ref": "DESIGN.md §" + c["ref"]},
          "level_note": c["note"],
          "technique": c["technique"],
        })
        for e in m["engines"]:
            if e["name"] == c["engine"]:
                e["serves_properties"].append(i)
    else:
        m["not_applicable"].append({"property_id": i, "reason": not_built.get(i, "check not built yet in this tree (model checking applies; see DESIGN.md §6) — not claimed until its check runs clean")})
json.dump(m, open(os.path.join(V, "MANIFEST.json"), "w"), indent=1)
print("claimed:", [c["property_id"] for c in m["checks"]])
