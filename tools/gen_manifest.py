#!/usr/bin/env python3
"""Writes /verif/MANIFEST.json from the table below (kept next to the checks so the two stay in step)."""
import json, os
V = os.path.dirname(os.path.dirname(os.path.abspath(__file__)))

MC = "model checking: bounded exhaustive enumeration on the real code"
checks = {
 "C15": dict(engine="E1", ref="6/C15", technique="exhaustive enumeration of name spellings x entry points, replayed on the real Set against a path.Clean reference resolver (recording Loader/Cache)",
   text="Every name spelling of <=4 segments over {a,b,.,..,empty} x relative/absolute x trailing slash, at 9 entry points, from referrers at depth 0-2, under 3 extension lists, is run on the real Set with a recording Loader and Cache; the exact request trace must equal the reference resolution. Exhaustive inside that alphabet, nothing outside it.",
   note="trusts path.Join/path.Clean as the definition of 'lexically clean'; backslash spellings excluded (platform dependent)"),
}
not_built = {}
ids = ["C%02d" % i for i in range(1, 21)]
m = {
 "version": 1,
 "setup_cmd": "./run.sh setup",
 "hooks": {
   "guard": "none (go build -overlay generated at run time; no hook commits in /repo)",
   "enable": "checks build /repo through `replace github.com/CloudyKit/jet/v6 => /repo`; C11 additionally passes -overlay with a generated sync shim, /repo is never written",
   "baseline_off_cmd": "./baseline.sh",
   "source_commits": [],
   "add_only": True,
 },
 "engines": [
   {"name": "E1", "path": "mc/internal/refjet + mc/internal/props", "serves_properties": [], "kind_free_text": "program-space enumeration against a reference interpreter"},
 ],
 "checks": [],
 "not_applicable": [],
 "notes": "See DESIGN.md. ./run.sh <Cxx> quick|thorough rebuilds the harness against /repo's working tree on every call.",
}
for i in ids:
    if i in checks:
        c = checks[i]
        m["checks"].append({
          "property_id": i,
          "quick_cmd": "./run.sh %s quick" % i,
          "thorough_cmd": "./run.sh %s thorough" % i,
          "evidence_file": "evidence/%s.json" % i,
          "replay_cmd_template": "./run.sh replay {path}",
          "engine": c["engine"],
          "level_claimed": {"category": "model_checking", "text": c["text"], "design_ref": "DESIGN.md §" + c["ref"]},
          "level_note": c["note"],
          "technique": c["technique"],
        })
        for e in m["engines"]:
            if e["name"] == c["engine"]:
                e["serves_properties"].append(i)
    else:
        m["not_applicable"].append({"property_id": i, "reason": not_built.get(i, "check not built yet in this tree (model checking applies; see DESIGN.md §6) — not claimed until its check runs clean")})
json.dump(m, open(os.path.join(V, "MANIFEST.json"), "w"), indent=1)
print("claimed:", [c["property_id"] for c in m["checks"]])
