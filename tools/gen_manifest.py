#!/usr/bin/env python3
"""Writes /verif/MANIFEST.json from the table below (kept next to the checks so the two stay in step)."""
import json, os
V = os.path.dirname(os.path.dirname(os.path.abspath(__file__)))

MC = "model checking: bounded exhaustive enumeration on the real code"
E1NOTE = "trusts the reference interpreter refjet (mc/internal/refjet; shares no code with jet; cases whose outcome the statement does not fix are skipped and counted); nothing outside the stated alphabet and bounds is covered"
E1TECH = "bounded exhaustive enumeration of generator-ASTs, each printed to jet source, executed on the real engine and compared with the reference interpreter's trace"
checks = {
 "C01": dict(engine="E1", ref="6/C01", technique=E1TECH,
   text="Every context of <=2 (thorough 3) nested frames (if/else/range/range-else/block/yield/content/include/try/catch/exec/includeIfExists) x 3 outer shapes (plain, root layout of an extends chain, leaf block rendered by the root's yield) x 24 values x 18 action forms (plain, piped function, html, 5 safe writers in 3 call forms) x 4 escapers is rendered by jet and must equal, byte for byte, literal text ++ E(printed value). Exhaustive inside that product.", note=E1NOTE),
 "C03": dict(engine="E1", ref="6/C03", technique="bounded exhaustive enumeration of atom sequences (text/action/comment/import) under 7 delimiter configurations, executed on the real engine and compared with an atom-level reference renderer",
   text="Every sequence of <=4 (thorough 5) atoms over ~22 letters (text incl. lone delimiter bytes and whitespace mixes, actions in 7 trim/spacing variants, 4 comment kinds) under 7 delimiter/comment configurations, plus headers with import clauses, must render exactly what a 40-line reference over the atom list renders; ambiguous concatenations are detected by an independent scan and skipped.", note="trusts the atom-level reference (mc/internal/props/c03.go c03Ref) and the ambiguity scan; delimiter configurations are the 7 listed ones"),
 "C04": dict(engine="E1", ref="6/C04", technique=E1TECH,
   text="All single-operator expressions over a 20-operand alphabet, all two-operator trees (13 binary, 3 unary, ternary) over 8 operands, all three-binary-operator trees over one (thorough two) operator(s) per precedence level, every operator x 10 left x 6 right operand shapes tight vs spaced, and all depth-2 trees over the lazy connectives with side-effecting probes (call log compared); each printed with minimal and with full parentheses.", note=E1NOTE+"; mixed-kind operations the statement does not define are skipped"),
 "C05": dict(engine="E1", ref="6/C05", technique=E1TECH,
   text="All if/else-if/else chains up to two else-if arms over a 31-value condition alphabet, and every nesting of depth <=2 (thorough 3) of if and range units over 21 rangeables (slices, arrays, pointers, maps, channels, ints(), index-providing and index-less custom rangers, nil, non-rangeable) x 6 variable forms x else.", note=E1NOTE+"; truthiness of zero-valued structs/arrays is treated as unspecified; 2-entry maps accept either iteration order"),
 "C07": dict(engine="E1", ref="6/C07", technique=E1TECH,
   text="All statement sequences of <=3 over 10 atoms (:=, =, multi-assignment, discard, reads of x, y and '.') inside each of 17 frames (if, if-let, 5 range forms, block/yield/include with and without context and parameters, yield-with-content), nested to depth 2 (thorough 3), under 4 variable origins (local, VarMap, global, both); the caller's VarMap after Execute is compared too; loop-variable capture over every ranger kind.", note=E1NOTE),
 "C08": dict(engine="E1", ref="6/C08", technique=E1TECH,
   text="All template sets with an extends chain of 1-3 and 0-2 imports in which every non-root template defines any subset of two block names (plain, conditional or nested placement) x 8 positions of the yield/definition site in the root layout; 3-parameter blocks with every default pattern x every ordered subset of named arguments x 3 block homes; content nesting, recursion and caller-scope variants.", note=E1NOTE+"; positional yield arguments, parameters with neither argument nor default and content-less yields of content-showing blocks are unspecified"),
 "C09": dict(engine="E1", ref="6/C09", technique=E1TECH,
   text="Call kind (include, exec, includeIfExists as action and as condition) x call site nested <=2 deep over 7 frames x context x 5 name forms x 3 referrer depths x 26 callee shapes (return at every position, return followed by each statement kind, extends chains 1-3, declarations, caller blocks, failing, missing); after the call the caller probes its variables, context and blocks.", note=E1NOTE+"; a range reached after a return, and a return inside an included template while the includer is inside a range, are unspecified"),
 "C12": dict(engine="E1", ref="6/C12", technique=E1TECH,
   text="~85 failure classes x 4 files (executed, included, imported library block, root layout) x 7 line layouts x 7 nestings: Execute must return an error (no panic), the writer must hold exactly the reference prefix, and for failures jet detects itself the message must name the failing file and a line inside the failing action's opening delimiters.", note=E1NOTE+"; the message format is matched loosely (first template path in the message, first integer after it); failures reported by built-in functions (len, isset, map, exec) only need to be errors"),
 "C13": dict(engine="E1", ref="6/C13", technique=E1TECH,
   text="Try bodies built from every sequence of <=3 (thorough 4) nested frames over 10 frame kinds x failure (none / innermost point / after the innermost frame / end; identifier, error panic, string panic) x 4 catch forms x 3 placements; afterwards the program probes context, variables, catch variable and {{yield content}}; compared byte for byte with the transactional reference.", note=E1NOTE),
 "C15": dict(engine="E1", ref="6/C15", technique="exhaustive enumeration of name spellings x entry points, replayed on the real Set against a path.Clean reference resolver (recording Loader/Cache)",
   text="Every name spelling of <=4 segments over {a,b,.,..,empty} x relative/absolute x trailing slash, at 9 entry points, from referrers at depth 0-2, under 3 extension lists, is run on the real Set with a recording Loader and Cache; the exact request trace must equal the reference resolution. Exhaustive inside that alphabet, nothing outside it.",
   note="trusts path.Join/path.Clean as the definition of 'lexically clean'; backslash spellings excluded (platform dependent)"),
}
not_built = {}
ids = ["C%02d" % i for i in range(1, 21)]
m = {
 "version": 1,
 "setup_cmd": "./run.sh setup",
 "hooks": {
   "guard": "none (go build -overlay generated at run time; no hook commits in /repo)",
   "enable": "checks build /repo through `replace github.com/CloudyKit/jet/v6 => /repo`; C11 additionally passes -overlay with a generated sync shim, /repo is never written",
   "baseline_off_cmd": "./baseline.sh",
   "source_commits": [],
   "add_only": True,
 },
 "engines": [
   {"name": "E1", "path": "mc/internal/refjet + mc/internal/props", "serves_properties": [], "kind_free_text": "program-space enumeration against a reference interpreter"},
 ],
 "checks": [],
 "not_applicable": [],
 "notes": "See DESIGN.md. ./run.sh <Cxx> quick|thorough rebuilds the harness against /repo's working tree on every call.",
}
for i in ids:
    if i in checks:
        c = checks[i]
        m["checks"].append({
          "property_id": i,
          "quick_cmd": "./run.sh %s quick" % i,
          "thorough_cmd": "./run.sh %s thorough" % i,
          "evidence_file": "evidence/%s.json" % i,
          "replay_cmd_template": "./run.sh replay {path}",
          "engine": c["engine"],
          "level_claimed": {"category": "model_checking", "text": c["text"], "design_ref": "DESIGN.md §" + c["ref"]},
          "level_note": c["note"],
          "technique": c["technique"],
        })
        for e in m["engines"]:
            if e["name"] == c["engine"]:
                e["serves_properties"].append(i)
    else:
        m["not_applicable"].append({"property_id": i, "reason": not_built.get(i, "check not built yet in this tree (model checking applies; see DESIGN.md §6) — not claimed until its check runs clean")})
json.dump(m, open(os.path.join(V, "MANIFEST.json"), "w"), indent=1)
print("claimed:", [c["property_id"] for c in m["checks"]])
