#!/bin/bash
# tools/seedcheck.sh <Cxx> <name> <dir-with-SEED>   e.g. tools/seedcheck.sh C10 a1 /tmp/seedwt/C10/SEED
# 1. verifies the seeded change in a fresh scratch worktree: suite passes with it, the demonstration fails
#    with it and passes without it;  2. stores it under /verif/seeded/<Cxx>-<name>/;  3. applies it to /repo,
#    runs the property's quick check, reverts, and records the verdict in meta.json.
set -u
prop=$1; name=$2; src=$3
export GOFLAGS=-mod=mod GOPROXY=off GOSUMDB=off GOTOOLCHAIN=local
id="$prop-$name"
wt=/tmp/seedverify/$id
rm -rf "$wt"; mkdir -p /tmp/seedverify
[ -n "${SEED_VERIFY_ONLY:-}" ] || git -C /repo diff --quiet || { echo "/repo dirty"; exit 2; }
git -C /repo worktree add --detach "$wt" HEAD -q || exit 2
cleanup() { git -C /repo worktree remove --force "$wt" 2>/dev/null; rm -rf "$wt"; }
trap cleanup EXIT
demo=$(ls "$src"/*_test.go 2>/dev/null | head -1)
[ -f "$src/patch.diff" ] && [ -n "$demo" ] || { echo "$id: missing patch.diff or demo test in $src"; exit 2; }
pkgdir="."
pk=$(grep -m1 '^package ' "$demo" | awk '{print $2}')
case "$pk" in utils|utils_test) pkgdir=utils;; multi|multi_test) pkgdir=loaders/multi;; httpfs|httpfs_test) pkgdir=loaders/httpfs;; embedfs|embedfs_test) pkgdir=loaders/embedfs;; esac
if [ -f "$src/PKGDIR" ]; then pkgdir=$(cat "$src/PKGDIR"); fi
raceflag=""; grep -qi -- "-race" "$src/README.md" 2>/dev/null && raceflag="-race"
cd "$wt"
git apply "$src/patch.diff" || { echo "$id: patch does not apply to HEAD"; exit 2; }
go build ./... || { echo "$id: does not compile"; exit 2; }
if go test -vet=off -count=1 ./... >/tmp/seedverify/$id.suite 2>&1; then suite=pass; else suite=FAIL; fi
cp "$demo" "$pkgdir/zz_seed_demo_test.go"
go test -vet=off -count=1 $raceflag -run 'TestSeedDemo' ./$pkgdir >/tmp/seedverify/$id.with 2>&1; with=$?
git checkout -- . 
go test -vet=off -count=1 $raceflag -run 'TestSeedDemo' ./$pkgdir >/tmp/seedverify/$id.without 2>&1; without=$?
rm -f "$pkgdir/zz_seed_demo_test.go"
echo "$id: suite=$suite demo_with_change_exit=$with demo_without_change_exit=$without race=$raceflag"
if [ "$suite" != pass ] || [ $with -eq 0 ] || [ $without -ne 0 ]; then
  echo "$id: NOT KEPT (needs suite=pass, demo failing with and passing without the change)"; tail -5 /tmp/seedverify/$id.with; tail -5 /tmp/seedverify/$id.without; exit 1
fi
cd /verif
dst=/verif/seeded/$id
mkdir -p "$dst"
cp "$src/patch.diff" "$dst/patch.diff"; cp "$demo" "$dst/$(basename $demo)"; [ -f "$src/README.md" ] && cp "$src/README.md" "$dst/agent_README.md"
if [ -n "${SEED_VERIFY_ONLY:-}" ]; then
  # only verify and store (when /repo is in use by something else); tools/reseed_all.sh <id> fills in the verdict later
  verdict=PENDING; nv=0; first=""
else
git -C /repo apply "$dst/patch.diff" || { echo "cannot apply to /repo"; exit 2; }
VERIF_BUDGET_S=${SEED_BUDGET:-200} ./run.sh $prop quick > /tmp/seedverify/$id.check 2>&1; rc=$?
git -C /repo checkout -- .
nv=$(grep -c '^VIOLATION' /tmp/seedverify/$id.check)
verdict=MISSED; [ $rc -eq 1 ] && [ $nv -gt 0 ] && verdict=CAUGHT
first=$(grep -m1 '^VIOLATION' /tmp/seedverify/$id.check | cut -c1-400)
fi
python3 - "$dst" "$prop" "$id" "$verdict" "$nv" "$raceflag" "$first" <<'PY'
import json,sys,os
dst,prop,id_,verdict,nv,race,first=sys.argv[1:8]
meta={"property":prop,"id":id_,"breaks":"see agent_README.md","needs_to_manifest":"see agent_README.md",
 "verified":{"suite_with_change":"pass","demonstration_with_change":"fails","demonstration_without_change":"passes","demo_flags":race,
             "commands":["git apply patch.diff","go test -vet=off -count=1 ./...","go test -run TestSeedDemo (with / without the change)"]},
 "check":{"command":"./run.sh %s quick"%prop,"verdict":verdict,"violation_lines":int(nv),"first_violation":first}}
p=os.path.join(dst,"meta.json")
if os.path.exists(p):
    old=json.load(open(p))
    for k in ("breaks","needs_to_manifest"):
        if old.get(k,"").startswith("see ")==False: meta[k]=old[k]
json.dump(meta,open(p,"w"),indent=1)
PY
git -C /verif checkout -- evidence 2>/dev/null
echo "$id: check=$verdict violations=$nv"
