#!/bin/bash
# tools/mkmutant.sh <Cxx> <name>: save /repo's uncommitted diff as a mutant patch and revert /repo.
set -e
mkdir -p /verif/mutants/$1
git -C /repo diff > /verif/mutants/$1/$2.diff
test -s /verif/mutants/$1/$2.diff || { echo "empty diff"; exit 1; }
git -C /repo checkout -- .
echo "saved /verif/mutants/$1/$2.diff"
