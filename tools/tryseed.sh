#!/bin/bash
# tools/tryseed.sh <Cxx> <seeded-id> [tier]: apply a stored seeded change to /repo, run the check, revert.
prop=$1; id=$2; tier=${3:-quick}
cd /verif
git -C /repo diff --quiet || { echo "/repo dirty"; exit 2; }
git -C /repo apply /verif/seeded/$id/patch.diff || exit 2
VERIF_BUDGET_S=${SEED_BUDGET:-200} ./run.sh $prop $tier > /tmp/tryseed.$id.out 2>&1; rc=$?
git -C /repo checkout -- .
nv=$(grep -c '^VIOLATION' /tmp/tryseed.$id.out)
echo "$id: rc=$rc violations=$nv"; grep -m2 '^VIOLATION' /tmp/tryseed.$id.out | cut -c1-300; tail -1 /tmp/tryseed.$id.out | cut -c1-250
git -C /verif checkout -- evidence 2>/dev/null
