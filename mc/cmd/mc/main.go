// Command mc runs one model-checking check: mc <property-id> quick|thorough,
// or re-runs a recorded violation: mc replay <file>.
package main

import (
	"fmt"
	"os"
	"runtime/debug"

	"verif/mc/internal/core"
	"verif/mc/internal/props"
)

func main() {
	debug.SetMaxStack(256 << 20)
	if len(os.Args) < 2 {
		fmt.Fprintln(os.Stderr, "usage: mc <Cxx> quick|thorough | mc replay <file> | mc worker <kind>")
		os.Exit(2)
	}
	switch os.Args[1] {
	case "replay":
		if len(os.Args) < 3 {
			os.Exit(2)
		}
		os.Exit(props.Replay(os.Args[2]))
	case "worker":
		os.Exit(props.Worker(os.Args[2:]))
	}
	tier := "quick"
	if len(os.Args) > 2 {
		tier = os.Args[2]
	}
	if t := os.Getenv("VERIF_TIER"); t != "" && len(os.Args) <= 2 {
		tier = t
	}
	fn, ok := props.Registry[os.Args[1]]
	if !ok {
		fmt.Fprintln(os.Stderr, "unknown property", os.Args[1])
		os.Exit(2)
	}
	r := core.NewRun(os.Args[1], tier)
	cov := fn(r)
	os.Exit(r.Finish(cov))
}
