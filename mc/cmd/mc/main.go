// Command mc runs one model-checking check: mc <property-id> quick|thorough,
// or re-runs a recorded violation: mc replay <file>.
package main

import (
	"context"
	"fmt"
	"io"
	"os"
	"os/exec"
	"runtime/debug"
	"strconv"
	"strings"
	"time"

	"verif/mc/internal/core"
	"verif/mc/internal/props"
)

func main() {
	debug.SetMaxStack(256 << 20)
	if len(os.Args) < 2 {
		fmt.Fprintln(os.Stderr, "usage: mc <Cxx> quick|thorough | mc replay <file> | mc worker <kind>")
		os.Exit(2)
	}
	switch os.Args[1] {
	case "replay":
		if len(os.Args) < 3 {
			os.Exit(2)
		}
		os.Exit(props.Replay(os.Args[2]))
	case "worker":
		os.Exit(props.Worker(os.Args[2:]))
	case "died":
		// mc died <Cxx> <tier> <how>: used by wrappers of checks with a binary of their own (C11)
		if len(os.Args) < 5 {
			os.Exit(2)
		}
		r := core.NewRun(os.Args[2], os.Args[3])
		r.Violate(core.Violation{Sig: "check-process-died", What: "the process executing jet for this check died or hung instead of giving a verdict: " + firstFatal(os.Args[4]),
			Case: map[string]interface{}{"property": os.Args[2], "tier": os.Args[3], "how": os.Args[4]}})
		os.Exit(r.Finish(map[string]interface{}{"exhaustive": false, "aborted": "the check's process died", "rule": "nothing was covered: the process died"}))
	}
	tier := "quick"
	if len(os.Args) > 2 {
		tier = os.Args[2]
	}
	if t := os.Getenv("VERIF_TIER"); t != "" && len(os.Args) <= 2 {
		tier = t
	}
	fn, ok := props.Registry[os.Args[1]]
	if !ok {
		fmt.Fprintln(os.Stderr, "unknown property", os.Args[1])
		os.Exit(2)
	}
	if os.Getenv("VERIF_CHILD") == "" && os.Getenv("VERIF_NO_SUPERVISOR") == "" {
		os.Exit(supervise(os.Args[1], tier))
	}
	r := core.NewRun(os.Args[1], tier)
	cov := fn(r)
	os.Exit(r.Finish(cov))
}

// supervise runs the check in a child process. The checks execute jet in-process, so a fatal error in jet code
// (stack overflow from runaway recursion, concurrent map access, out of memory) takes the whole check down
// without a verdict, and a call that never returns outside a watched loop would block it for ever. The
// supervisor turns both into a reported violation: a child that dies abnormally is run once more, and if it dies
// again (or exceeds twice its budget plus five minutes) that is the finding.
func supervise(prop, tier string) int {
	var last string
	for attempt := 1; attempt <= 2; attempt++ {
		code, tail, timedOut := runChild(prop, tier)
		if !timedOut && (code == 0 || code == 1) {
			return code
		}
		last = fmt.Sprintf("exit status %d", code)
		if timedOut {
			last = "no verdict within twice the budget plus five minutes; killed"
		}
		last += "; " + tail
		fmt.Fprintf(os.Stderr, "mc: the check's process ended abnormally (attempt %d): %s\n", attempt, firstFatal(tail))
		if timedOut {
			break
		}
	}
	r := core.NewRun(prop, tier)
	r.Violate(core.Violation{Sig: "check-process-died", What: "the process executing jet for this check died or hung instead of giving a verdict: " + firstFatal(last),
		Case: map[string]interface{}{"property": prop, "tier": tier, "how": last}})
	return r.Finish(map[string]interface{}{"exhaustive": false, "aborted": "the check's process died", "rule": "nothing was covered: the process died"})
}

func firstFatal(s string) string {
	for _, pfx := range [][]string{{"fatal error:", "panic:"}, {"runtime:"}} {
		for _, l := range strings.Split(s, "\n") {
			t := strings.TrimSpace(l)
			for _, p := range pfx {
				if strings.HasPrefix(t, p) {
					if len(t) > 200 {
						t = t[:200]
					}
					return t
				}
			}
		}
	}
	if len(s) > 200 {
		s = s[:200]
	}
	return strings.ReplaceAll(s, "\n", " | ")
}

func runChild(prop, tier string) (code int, tail string, timedOut bool) {
	exe, err := os.Executable()
	if err != nil {
		exe = os.Args[0]
	}
	budget := 150 * time.Second
	if tier == "thorough" {
		budget = 25 * time.Minute
	}
	if s := os.Getenv("VERIF_BUDGET_S"); s != "" {
		if n, err := strconv.Atoi(s); err == nil {
			budget = time.Duration(n) * time.Second
		}
	}
	ctx, cancel := context.WithTimeout(context.Background(), 2*budget+5*time.Minute)
	defer cancel()
	cmd := exec.CommandContext(ctx, exe, prop, tier)
	cmd.Env = append(os.Environ(), "VERIF_CHILD=1")
	cmd.Stdout = os.Stdout
	var buf tailBuf
	cmd.Stderr = io.MultiWriter(os.Stderr, &buf)
	err = cmd.Run()
	if ctx.Err() == context.DeadlineExceeded {
		return -1, buf.String(), true
	}
	if err == nil {
		return 0, "", false
	}
	if ee, ok := err.(*exec.ExitError); ok {
		return ee.ExitCode(), buf.String(), false
	}
	return -1, err.Error(), false
}

// tailBuf keeps the first 4 KB of what is written to it (the head of a Go crash report names the error).
type tailBuf struct{ b []byte }

func (t *tailBuf) Write(p []byte) (int, error) {
	if room := 4096 - len(t.b); room > 0 {
		if len(p) < room {
			room = len(p)
		}
		t.b = append(t.b, p[:room]...)
	}
	return len(p), nil
}
func (t *tailBuf) String() string { return string(t.b) }
