// Command c11race runs the C11 scenario bodies free-running (real goroutines, real sync package)
// under the race detector. It is sampling, not exhaustive: it covers the unsynchronised accesses that
// the cooperative scheduler of cmd/c11 cannot see.
package main

import (
	"fmt"
	"os"
	"runtime"
	"strconv"
	"sync"
	"sync/atomic"

	"verif/mc/internal/c11scen"
)

func main() {
	iters := 300
	if len(os.Args) > 1 {
		if n, err := strconv.Atoi(os.Args[1]); err == nil {
			iters = n
		}
	}
	var clock int64
	c11scen.Clock = func() int { return int(atomic.AddInt64(&clock, 1)) }
	c11scen.Yield = func(string) { runtime.Gosched() }
	bad := 0
	for _, sc := range c11scen.Scenarios {
		outcomes := map[string]int{}
		for i := 0; i < iters; i++ {
			bodies, check := sc.New(i)
			var wg sync.WaitGroup
			start := make(chan struct{})
			for _, b := range bodies {
				wg.Add(1)
				go func(b func()) {
					defer wg.Done()
					<-start
					b()
				}(b)
			}
			close(start)
			wg.Wait()
			outcome, why, events := check()
			outcomes[outcome]++
			if why == "" && len(events) > 0 && !c11scen.Linearizable(events, "v1") {
				why = fmt.Sprintf("history not linearizable: %+v", events)
			}
			if why != "" {
				fmt.Printf("FREE-RUN-FAILURE %s: %s\n", sc.Name, why)
				bad++
				break
			}
		}
		fmt.Printf("%s: %d iterations, %d distinct outcomes\n", sc.Name, iters, len(outcomes))
	}
	if bad > 0 {
		os.Exit(1)
	}
	fmt.Println("RACE-PASS-OK")
}
