package refjet

import (
	"bytes"
	"fmt"
	"io"
	"strings"

	"github.com/CloudyKit/jet/v6"
)

// ImplResult is what the implementation did for one execution.
type ImplResult struct {
	Out      string
	Err      error       // error returned by Execute
	Panic    interface{} // value of a panic that escaped Execute / GetTemplate
	LoadErr  error       // GetTemplate failed
	Log      []string
	Vars     jet.VarMap
	Sources  map[string]string
	// Again executes another entry (fresh inputs) on the same Set, so that whatever loading or executing the
	// first entry left behind in the Set is in place.
	Again func(entry string) ImplResult `json:"-"`
	// AgainWith is Again with other inputs (e.g. no data at all).
	AgainWith func(entry string, mk func(log *[]string) Inputs) ImplResult `json:"-"`
}

func (r ImplResult) Failed() bool { return r.Err != nil || r.Panic != nil || r.LoadErr != nil }

// ImplEscapers mirrors Escapers on the implementation side.
var ImplEscapers = map[string]jet.SafeWriter{}

// Render prints all files of p.
func Render(p *Program, pr *Printer) map[string]string {
	if pr == nil {
		pr = NewPrinter()
	}
	src := map[string]string{}
	for _, f := range p.Files {
		src[f.Name] = pr.Source(f)
	}
	return src
}

// SetOptions lets a check add Set options (delimiters ...).
type SetOptions []jet.Option

// RunImpl executes p on jet, built from /repo's current working tree.
// cappedBuffer refuses to grow beyond 2 MB: a loop that never ends while printing must end as a reported
// failure, not as an out-of-memory kill of the whole check.
type cappedBuffer struct{ bytes.Buffer }

func (b *cappedBuffer) Write(p []byte) (int, error) {
	if b.Len()+len(p) > 2<<20 {
		panic(fmt.Errorf("harness: more than 2 MB of output (runaway loop?)"))
	}
	return b.Buffer.Write(p)
}

func RunImpl(p *Program, src map[string]string, extra ...jet.Option) (res ImplResult) {
	var log []string
	in := Inputs{}
	if p.Mk != nil {
		in = p.Mk(&log)
	}
	ld := jet.NewInMemLoader()
	for n, s := range src {
		ld.Set(n, s)
	}
	var opts []jet.Option
	switch p.Escaper {
	case "":
	case "nil":
		opts = append(opts, jet.WithSafeWriter(nil))
	default:
		opts = append(opts, jet.WithSafeWriter(ImplEscapers[p.Escaper]))
	}
	opts = append(opts, extra...)
	set := jet.NewSet(ld, opts...)
	for k, v := range in.Globals {
		set.AddGlobal(k, v)
	}
	res.Sources = src
	var vars jet.VarMap
	if in.Vars != nil {
		vars = jet.VarMap{}
		for k, v := range in.Vars {
			vars.Set(k, v)
		}
	}
	var buf cappedBuffer
	func() {
		defer func() {
			if x := recover(); x != nil {
				res.Panic = x
			}
		}()
		t, err := set.GetTemplate(p.Entry)
		if err != nil {
			res.LoadErr = err
			return
		}
		res.Err = t.Execute(&buf, vars, in.Data)
	}()
	res.Out = buf.String()
	res.Log = log
	res.Vars = vars
	res.Again = func(entry string) (r2 ImplResult) { return res.AgainWith(entry, p.Mk) }
	res.AgainWith = func(entry string, mk func(log *[]string) Inputs) (r2 ImplResult) {
		var log2 []string
		in2 := Inputs{}
		if mk != nil {
			in2 = mk(&log2)
		}
		var vars2 jet.VarMap
		if in2.Vars != nil {
			vars2 = jet.VarMap{}
			for k, v := range in2.Vars {
				vars2.Set(k, v)
			}
		}
		var buf2 cappedBuffer
		func() {
			defer func() {
				if x := recover(); x != nil {
					r2.Panic = x
				}
			}()
			t, err := set.GetTemplate(entry)
			if err != nil {
				r2.LoadErr = err
				return
			}
			r2.Err = t.Execute(&buf2, vars2, in2.Data)
		}()
		r2.Out, r2.Log, r2.Vars, r2.Sources = buf2.String(), log2, vars2, src
		return r2
	}
	return res
}

// Compare checks the implementation's result against the reference's; "" = conforms.
func Compare(ref Result, got ImplResult) string {
	if ref.Unspec != "" {
		return ""
	}
	if got.LoadErr != nil {
		return fmt.Sprintf("template set does not load: %v", got.LoadErr)
	}
	if ref.Err == nil {
		if got.Panic != nil {
			return fmt.Sprintf("Execute panicked (%v); the reference renders %q", got.Panic, ref.Out)
		}
		if got.Err != nil {
			return fmt.Sprintf("Execute failed (%v); the reference renders %q", got.Err, ref.Out)
		}
		if got.Out != ref.Out {
			for _, a := range ref.AltOuts {
				if a == got.Out {
					return ""
				}
			}
			return fmt.Sprintf("output %q, reference %q", got.Out, ref.Out)
		}
		return ""
	}
	if !got.Failed() {
		return fmt.Sprintf("Execute succeeded with %q; the reference fails (%s) after %q", got.Out, ref.Err.Class, ref.Out)
	}
	if got.Out != ref.Out {
		return fmt.Sprintf("failure (%s) as expected but the writer holds %q, reference prefix %q", ref.Err.Class, got.Out, ref.Out)
	}
	return ""
}

// Describe renders a case for replay files and samples.
func Describe(p *Program, src map[string]string, ref Result, got ImplResult) map[string]interface{} {
	m := map[string]interface{}{"entry": p.Entry, "files": src}
	if ref.Unspec != "" {
		m["reference"] = "unspecified: " + ref.Unspec
	} else if ref.Err != nil {
		m["reference"] = map[string]interface{}{"fails": ref.Err.Class, "output_before": ref.Out}
	} else {
		m["reference"] = map[string]interface{}{"output": ref.Out}
	}
	g := map[string]interface{}{"output": got.Out}
	if got.Err != nil {
		g["error"] = got.Err.Error()
	}
	if got.Panic != nil {
		g["panic"] = fmt.Sprint(got.Panic)
	}
	if got.LoadErr != nil {
		g["load_error"] = got.LoadErr.Error()
	}
	m["implementation"] = g
	if p.Escaper != "" {
		m["escaper"] = p.Escaper
	}
	return m
}

var _ = io.Discard
var _ = strings.Join
