package refjet

import (
	"bytes"
	"fmt"
	"math"
	"path"
	"reflect"
	"sort"
	"strconv"
	"strings"
)

// RefError is a failure the reference expects Execute to report as an error.
type RefError struct {
	Class string
	At    interface{} // node whose action fails (for file/line expectations)
	Val   interface{} // the value a catch variable would hold, when the reference knows it
	File  string      // file of the failing action
}

func (e *RefError) Error() string { return "ref error: " + e.Class }

// Unspec aborts evaluation of a case whose outcome the property does not fix.
type Unspec string

// Result is what the reference predicts for one execution.
type Result struct {
	Out    string
	Err    *RefError // nil = success
	Unspec string    // non-empty = outcome not fixed by the property
	Vars   map[string]interface{}
	Log    []string
	Ret    interface{}
	// AltOuts lists further acceptable outputs (map iteration orders).
	AltOuts []string
}

type blockRef struct {
	def  *BlockDef
	file string
}

type scope struct {
	parent *scope
	vars   map[string]interface{}
	blocks map[string]*blockRef
	nilMap bool // bottom scope created from a nil VarMap
	isList bool // the scope of a statement list
	opened bool // a := has been executed in this list (jet opens list scopes lazily)
}

// listOpened reports whether the innermost statement list has executed a := yet.
func (e *env) listOpened() bool { return !e.sc.isList || e.sc.opened }

// outerOfList is the scope jet's Runtime.Let writes to while the list scope has not been opened.
func (e *env) outerOfList() *scope {
	sc := e.sc
	for sc.isList && !sc.opened && sc.parent != nil {
		sc = sc.parent
	}
	if sc.vars == nil {
		sc.vars = map[string]interface{}{} // nil VarMap: the runtime keeps its own bottom map
	}
	return sc
}

type content struct {
	body  []Stmt
	sc    *scope
	outer *content
	file  string
}

type env struct {
	p       *Program
	in      Inputs
	sc      *scope
	ctx     interface{}
	cont    *content
	out     *bytes.Buffer
	file    string
	ret     interface{}
	retSet  bool
	tables  map[string]map[string]*blockRef
	esc     func(string) string
	log     *[]string
	blockDepth int // > 0 while a block body or a yielded content runs (per executed template)
	cur        Stmt // statement being executed (failure position)
	rangeDepth int // number of range bodies currently running (per executed template)
	retCount   int // number of return statements executed so far
	execDepth  int // number of exec calls in progress
	mapPerm int // which permutation of 2-entry maps to use
	sawMap2 bool
	depth   int
}

// Escapers lists the custom escapers usable by name in Program.Escaper; the
// implementation side (impl.go) registers the matching jet.SafeWriter.
var Escapers = map[string]func(string) string{}

// HTMLEscape is the documented default: the five HTML-special bytes (and NUL).
func HTMLEscape(s string) string {
	var b strings.Builder
	for i := 0; i < len(s); i++ {
		switch s[i] {
		case '<':
			b.WriteString("&lt;")
		case '>':
			b.WriteString("&gt;")
		case '&':
			b.WriteString("&amp;")
		case '\'':
			b.WriteString("&#39;")
		case '"':
			b.WriteString("&#34;")
		case 0:
			b.WriteString("�")
		default:
			b.WriteByte(s[i])
		}
	}
	return b.String()
}

// SafeWriters models the built-in safe writers by name (user ones are added by checks).
var SafeWriters = map[string]func(string) string{
	"raw":      func(s string) string { return s },
	"unsafe":   func(s string) string { return s },
	"safeHtml": HTMLEscape,
}

// Builtins available as fall-back identifiers in the reference (name -> Go func).
var Builtins = map[string]interface{}{
	"lower":     strings.ToLower,
	"upper":     strings.ToUpper,
	"hasPrefix": strings.HasPrefix,
	"hasSuffix": strings.HasSuffix,
	"repeat":    strings.Repeat,
	"replace":   strings.Replace,
	"split":     strings.Split,
	"trimSpace": strings.TrimSpace,
}

// Eval runs the reference interpreter on p.
func Eval(p *Program) Result {
	r := evalPerm(p, 0)
	if r.Unspec == "" && r.sawMap2 {
		r2 := evalPerm(p, 1)
		if r2.Out != r.Out {
			r.AltOuts = append(r.AltOuts, r2.Out)
		}
	}
	return r.Result
}

type permResult struct {
	Result
	sawMap2 bool
}

func evalPerm(p *Program, perm int) (res permResult) {
	var log []string
	in := Inputs{}
	if p.Mk != nil {
		in = p.Mk(&log)
	}
	e := &env{p: p, in: in, out: &bytes.Buffer{}, log: &log, mapPerm: perm, tables: map[string]map[string]*blockRef{}}
	switch p.Escaper {
	case "":
		e.esc = HTMLEscape
	case "nil":
		e.esc = func(s string) string { return s }
	default:
		e.esc = Escapers[p.Escaper]
	}
	bottom := &scope{vars: in.Vars, nilMap: in.Vars == nil}
	defer func() {
		res.Out = e.out.String()
		res.Log = log
		res.Vars = in.Vars
		res.Ret = e.ret
		res.sawMap2 = e.sawMap2
		if x := recover(); x != nil {
			switch x := x.(type) {
			case *RefError:
				res.Err = x
			case Unspec:
				res.Unspec = string(x)
			default:
				panic(x)
			}
		}
	}()
	f := p.File(p.Entry)
	if f == nil {
		panic(Unspec("entry missing"))
	}
	bottom.blocks = e.table(f.Name, 0)
	e.sc = bottom
	e.ctx = in.Data
	root := e.rootOf(f, 0)
	e.file = root.Name
	e.list(root.Body)
	return
}

func (e *env) quirk(name string) bool { return e.p.Quirks[name] }

func (e *env) fail(class string, at interface{}) {
	if at == nil {
		at = e.cur
	}
	panic(&RefError{Class: class, At: at, File: e.file, Val: nil})
}

// rootOf follows the extends chain to its root.
func (e *env) rootOf(f *File, depth int) *File {
	for f.Extends != "" {
		if depth > 8 {
			panic(Unspec("extends cycle"))
		}
		n := e.resolveName(f.Extends, f.Name, true)
		g := e.lookupFile(n)
		if g == nil {
			panic(Unspec("extends target missing"))
		}
		f = g
		depth++
	}
	return f
}

// resolveName: relative names resolve against the referrer's directory when rel is set.
func (e *env) resolveName(name, referrer string, rel bool) string {
	if path.IsAbs(name) || !rel {
		return path.Join("/", name)
	}
	return path.Join(path.Dir(referrer), name)
}

var defaultExts = []string{"", ".jet", ".html.jet", ".jet.html"}

func (e *env) lookupFile(resolved string) *File {
	for _, x := range defaultExts {
		if f := e.p.File(resolved + x); f != nil {
			return f
		}
	}
	return nil
}

// table computes the block table of a file: extended chain, then imports in
// order, then own blocks (each later source overrides the earlier ones).
func (e *env) table(name string, depth int) map[string]*blockRef {
	if t, ok := e.tables[name]; ok {
		return t
	}
	if depth > 8 {
		panic(Unspec("cyclic references"))
	}
	f := e.p.File(name)
	t := map[string]*blockRef{}
	if f == nil {
		return t
	}
	if f.Extends != "" {
		if g := e.lookupFile(e.resolveName(f.Extends, f.Name, true)); g != nil {
			for k, v := range e.table(g.Name, depth+1) {
				t[k] = v
			}
		}
	}
	for _, im := range f.Imports {
		if g := e.lookupFile(e.resolveName(im, f.Name, true)); g != nil {
			for k, v := range e.table(g.Name, depth+1) {
				t[k] = v
			}
		}
	}
	var own func(l []Stmt)
	own = func(l []Stmt) {
		for _, s := range l {
			switch s := s.(type) {
			case *BlockDef:
				own(s.Body)
				own(s.Content)
				if prev, dup := t[s.Name]; dup && prev.file == f.Name {
					panic(Unspec("block defined twice in one file"))
				}
				t[s.Name] = &blockRef{def: s, file: f.Name}
			case *If:
				own(s.Then)
				own(s.Else)
			case *Range:
				own(s.Body)
				own(s.Else)
			case *Yield:
				own(s.Content)
			case *Try:
				own(s.Body)
				own(s.Catch)
			}
		}
	}
	own(f.Body)
	e.tables[name] = t
	return t
}

func (e *env) getBlock(name string) *blockRef {
	for s := e.sc; s != nil; s = s.parent {
		if b, ok := s.blocks[name]; ok {
			return b
		}
	}
	return nil
}

func (e *env) push() { e.sc = &scope{parent: e.sc, vars: map[string]interface{}{}} }
func (e *env) pop()  { e.sc = e.sc.parent }

func (e *env) lookup(name string) (interface{}, bool) {
	for s := e.sc; s != nil; s = s.parent {
		if v, ok := s.vars[name]; ok {
			return v, true
		}
	}
	if v, ok := e.in.Globals[name]; ok {
		return v, true
	}
	if v, ok := Builtins[name]; ok {
		return v, true
	}
	return nil, false
}

// list runs a statement list in its own lexical scope.
func (e *env) list(l []Stmt) {
	e.depth++
	if e.depth > 200 {
		panic(Unspec("recursion too deep"))
	}
	e.push()
	e.sc.isList = true
	saved := e.sc
	defer func() { e.depth-- }()
	for _, s := range l {
		e.stmt(s)
	}
	if e.sc != saved {
		panic("refjet: unbalanced scopes")
	}
	e.pop()
}

func (e *env) declare(name string, v interface{}) {
	e.sc.opened = true
	if name == "_" {
		return
	}
	e.sc.vars[name] = v
}

func (e *env) assign(name string, v interface{}, at interface{}) {
	if name == "_" {
		return
	}
	for s := e.sc; s != nil; s = s.parent {
		if _, ok := s.vars[name]; ok {
			s.vars[name] = v
			return
		}
	}
	if _, ok := e.in.Globals[name]; ok {
		panic(Unspec("assignment to a name that only exists as a global"))
	}
	if _, ok := Builtins[name]; ok {
		panic(Unspec("assignment to a built-in name"))
	}
	e.fail("assign-undeclared", at)
}

func mentions(x Expr, names []string) bool {
	found := false
	var walk func(x Expr)
	walk = func(x Expr) {
		switch x := x.(type) {
		case *Var:
			for _, n := range names {
				if n == x.Name {
					found = true
				}
			}
		case *Field:
			if x.X != nil {
				walk(x.X)
			}
		case *Index:
			walk(x.X)
			walk(x.I)
		case *Slice:
			walk(x.X)
			if x.Lo != nil {
				walk(x.Lo)
			}
			if x.Hi != nil {
				walk(x.Hi)
			}
		case *Bin:
			walk(x.L)
			walk(x.R)
		case *Un:
			walk(x.X)
		case *Tern:
			walk(x.C)
			walk(x.A)
			walk(x.B)
		case *Paren:
			walk(x.X)
		case *Call:
			walk(x.Fn)
			for _, a := range x.Args {
				walk(a)
			}
		case *IsSet:
			for _, a := range x.Args {
				walk(a)
			}
		}
	}
	walk(x)
	return found
}

func (e *env) doAssign(a *Assign) {
	if len(a.Names) == 2 && len(a.Vals) == 1 {
		// v, ok := m[k]
		ix, isIx := a.Vals[0].(*Index)
		if !isIx {
			panic(Unspec("two names, one value, not an index expression"))
		}
		v, present := e.indexLookup(ix)
		if a.Decl {
			e.declare(a.Names[0], v)
			e.declare(a.Names[1], present)
		} else {
			e.assign(a.Names[0], v, a)
			e.assign(a.Names[1], present, a)
		}
		return
	}
	if len(a.Names) > 1 {
		for _, v := range a.Vals {
			if mentions(v, a.Names) {
				panic(Unspec("multi-assignment whose right side mentions a left name"))
			}
		}
	}
	for i, n := range a.Names {
		v := e.eval(a.Vals[i])
		if a.Decl {
			e.declare(n, v)
		} else {
			e.assign(n, v, a)
		}
	}
}

func (e *env) stmt(s Stmt) {
	e.cur = s
	switch s := s.(type) {
	case *Text:
		e.out.WriteString(s.S)
	case *Comment:
	case *TrimmedText:
	case *FailStmt:
		e.fail(s.Class, s)
	case *API:
		e.api(s)
	case *Emit:
		e.emit(s)
	case *Assign:
		e.doAssign(s)
	case *If:
		if s.Init != nil {
			e.push()
			defer e.pop()
			e.doAssign(s.Init)
		}
		if Truthy(e.eval(s.Cond)) {
			e.list(s.Then)
		} else if s.HasElse {
			e.list(s.Else)
		}
	case *Range:
		e.rangeStmt(s)
	case *BlockDef:
		b := e.getBlock(s.Name)
		if b == nil {
			b = &blockRef{def: s, file: e.file}
		}
		// a definition site invokes the most-derived block with that block's own
		// parameter list as argument list, its context expression and its default content
		for _, p := range b.def.Params {
			if p.Val == nil {
				e.fail("block-param-without-value", s)
			}
		}
		e.invoke(b, b.def.Params, b.def.Ctx, b.def.Content, b.def.HasContent, b.file, s)
	case *Yield:
		b := e.getBlock(s.Name)
		if b == nil {
			e.fail("unknown-block", s)
		}
		e.invoke(b, s.Args, s.Ctx, s.Content, s.HasContent, e.file, s)
	case *YieldContent:
		c := e.cont
		if c == nil {
			return
		}
		oSc, oCont, oCtx, oFile := e.sc, e.cont, e.ctx, e.file
		e.sc, e.cont, e.file = c.sc, c.outer, c.file
		restore := func() { e.sc, e.cont, e.ctx, e.file = oSc, oCont, oCtx, oFile; e.blockDepth-- }
		e.blockDepth++
		func() {
			defer restore()
			if s.Ctx != nil {
				e.ctx = e.eval(s.Ctx)
			}
			e.list(c.body)
		}()
	case *Include:
		e.include(s.Name, s.Ctx, s, true, false)
	case *Try:
		e.try(s)
	case *Return:
		v := e.eval(s.E)
		if v == nil {
			panic(Unspec("return of nil"))
		}
		if e.blockDepth > 0 && e.quirk("return-dropped-in-block-or-content") {
			return
		}
		e.ret, e.retSet = v, true
		e.retCount++
	default:
		panic(fmt.Sprintf("refjet: unknown stmt %T", s))
	}
}

// invoke runs block b with the given arguments / context / content.
func (e *env) invoke(b *blockRef, args []Param, ctxExpr Expr, contentBody []Stmt, hasContent bool, contentFile string, at interface{}) {
	oCtx, oCont, oFile := e.ctx, e.cont, e.file
	needScope := len(b.def.Params) > 0 || len(args) > 0
	if needScope {
		e.push()
	}
	e.blockDepth++
	defer func() {
		e.blockDepth--
		e.ctx, e.cont, e.file = oCtx, oCont, oFile
		if needScope {
			e.pop()
		}
	}()
	declared := map[string]bool{}
	for _, p := range b.def.Params {
		declared[p.Name] = true
	}
	given := map[string]bool{}
	var pnames []string
	for _, p := range b.def.Params {
		pnames = append(pnames, p.Name)
	}
	for _, a := range args {
		if a.Name == "" {
			panic(Unspec("positional yield argument"))
		}
		if a.Val == nil {
			e.fail("yield-arg-without-value", at)
		}
		if !declared[a.Name] {
			// an argument the block does not declare is still a variable of the block body's scope
			pnames = append(pnames, a.Name)
		}
		if given[a.Name] {
			panic(Unspec("yield argument given twice"))
		}
		var earlier []string
		for n := range given {
			earlier = append(earlier, n)
		}
		if mentions(a.Val, earlier) {
			panic(Unspec("argument expression mentions the name of an earlier argument"))
		}
		given[a.Name] = true
	}
	// arguments are evaluated in the caller's scope, in the order written
	vals := map[string]interface{}{}
	for _, a := range args {
		vals[a.Name] = e.evalInParent(a.Val, needScope)
	}
	for _, a := range args {
		e.sc.vars[a.Name] = vals[a.Name]
	}
	for _, p := range b.def.Params {
		if given[p.Name] {
			continue
		}
		if p.Val == nil {
			panic(Unspec("parameter with neither argument nor default"))
		}
		if mentions(p.Val, pnames) {
			panic(Unspec("default expression mentions a parameter name"))
		}
		e.sc.vars[p.Name] = e.evalInParent(p.Val, needScope)
	}
	if hasContent {
		if contentReads(contentBody, pnames) {
			panic(Unspec("content body reads a name that is also a parameter of the block"))
		}
		csc := e.sc
		if needScope {
			csc = e.sc.parent
		}
		e.cont = &content{body: contentBody, sc: csc, outer: oCont, file: contentFile}
	} else if b.def.HasContent || oCont != nil {
		if bodyYieldsContent(b.def.Body) {
			panic(Unspec("yield without content of a block that shows content"))
		}
	}
	if ctxExpr != nil {
		if mentions(ctxExpr, pnames) {
			panic(Unspec("context expression mentions a parameter name"))
		}
		e.ctx = e.evalInParent(ctxExpr, needScope)
	}
	e.file = b.file
	e.list(b.def.Body)
}

func (e *env) evalInParent(x Expr, pushed bool) interface{} {
	if !pushed {
		return e.eval(x)
	}
	cur := e.sc
	e.sc = cur.parent
	defer func() { e.sc = cur }()
	return e.eval(x)
}

func bodyYieldsContent(l []Stmt) bool {
	for _, s := range l {
		switch s := s.(type) {
		case *YieldContent:
			return true
		case *If:
			if bodyYieldsContent(s.Then) || bodyYieldsContent(s.Else) {
				return true
			}
		case *Range:
			if bodyYieldsContent(s.Body) || bodyYieldsContent(s.Else) {
				return true
			}
		case *Try:
			if bodyYieldsContent(s.Body) || bodyYieldsContent(s.Catch) {
				return true
			}
		case *Yield:
			return true // conservative: the callee may show the pending content
		case *BlockDef:
			return true
		case *Include:
			return true
		}
	}
	return false
}

func contentReads(l []Stmt, names []string) bool {
	if len(names) == 0 {
		return false
	}
	hit := false
	var ex func(x Expr)
	ex = func(x Expr) {
		if x != nil && mentions(x, names) {
			hit = true
		}
	}
	var walk func(l []Stmt)
	walk = func(l []Stmt) {
		for _, s := range l {
			switch s := s.(type) {
			case *Emit:
				ex(s.E)
			case *Assign:
				for _, n := range s.Names {
					for _, m := range names {
						if n == m {
							hit = true
						}
					}
				}
				for _, v := range s.Vals {
					ex(v)
				}
			case *If:
				if s.Init != nil {
					walk([]Stmt{s.Init})
				}
				ex(s.Cond)
				walk(s.Then)
				walk(s.Else)
			case *Range:
				ex(s.X)
				walk(s.Body)
				walk(s.Else)
			case *Yield:
				for _, a := range s.Args {
					ex(a.Val)
				}
				ex(s.Ctx)
				walk(s.Content)
			case *YieldContent:
				ex(s.Ctx)
			case *Include:
				hit = true // the included file may read anything
			case *Try:
				walk(s.Body)
				walk(s.Catch)
			case *Return:
				ex(s.E)
			case *BlockDef:
				hit = true
			}
		}
	}
	walk(l)
	return hit
}

func (e *env) rangeStmt(s *Range) {
	if e.retSet {
		panic(Unspec("range reached after a return has executed"))
	}
	x := e.eval(s.X)
	it := e.iterate(x, s)
	if !it.hasIndex && s.K != "" && s.V != "" {
		e.fail("two-var-range-without-index", s)
	}
	oCtx := e.ctx
	if s.Decl && (s.K != "" || s.V != "") {
		e.push()
		defer e.pop()
	}
	defer func() { e.ctx = oCtx }()
	n := 0
	for {
		k, v, ok := it.next()
		if !ok {
			break
		}
		n++
		bind := func(name string, val interface{}) {
			if s.Decl {
				e.declare(name, val)
			} else {
				e.assign(name, val, s)
			}
		}
		switch {
		case s.K == "" && s.V == "":
			e.ctx = v
		case s.V == "":
			if it.hasIndex {
				bind(s.K, k)
				e.ctx = v
			} else {
				bind(s.K, v) // index-less rangers bind the value and keep the context
			}
		default:
			bind(s.K, k)
			bind(s.V, v)
		}
		before := e.retSet
		saveRet := e.ret
		e.retSet = false
		e.rangeDepth++
		func() {
			defer func() { e.rangeDepth-- }()
			e.list(s.Body)
		}()
		returned := e.retSet
		if !returned {
			e.ret, e.retSet = saveRet, before
		}
		if returned {
			break // pinned by the suite: a return inside a range body ends the loop after this iteration
		}
	}
	if n == 0 && s.HasElse {
		e.ctx = oCtx
		e.list(s.Else)
	}
}

type iter struct {
	hasIndex bool
	next     func() (k, v interface{}, ok bool)
}

// RefRanger is implemented by custom rangers of the harness so that the
// reference can iterate them without going through jet (items are pulled lazily).
type RefRanger interface {
	RefHasIndex() bool
	RefNext() (k, v interface{}, ok bool)
}

func (e *env) iterate(x interface{}, at *Range) iter {
	if x == nil {
		e.fail("range-over-nil", at)
	}
	if rr, ok := x.(RefRanger); ok {
		return iter{hasIndex: rr.RefHasIndex(), next: rr.RefNext}
	}
	v := reflect.ValueOf(x)
	for v.Kind() == reflect.Ptr || v.Kind() == reflect.Interface {
		if v.IsNil() {
			e.fail("range-over-nil", at)
		}
		v = v.Elem()
	}
	switch v.Kind() {
	case reflect.Slice, reflect.Array:
		i := 0
		return iter{hasIndex: true, next: func() (interface{}, interface{}, bool) {
			if i >= v.Len() {
				return nil, nil, false
			}
			i++
			return i - 1, unwrap(v.Index(i - 1)), true
		}}
	case reflect.Map:
		keys := v.MapKeys()
		sort.Slice(keys, func(a, b int) bool { return fmt.Sprint(keys[a].Interface()) < fmt.Sprint(keys[b].Interface()) })
		if len(keys) == 2 {
			if e.sawMap2 {
				panic(Unspec("more than one iteration over a 2-entry map"))
			}
			e.sawMap2 = true
			if e.mapPerm == 1 {
				keys[0], keys[1] = keys[1], keys[0]
			}
		} else if len(keys) > 2 {
			panic(Unspec("map with more than 2 entries"))
		}
		i := 0
		return iter{hasIndex: true, next: func() (interface{}, interface{}, bool) {
			if i >= len(keys) {
				return nil, nil, false
			}
			i++
			return unwrap(keys[i-1]), unwrap(v.MapIndex(keys[i-1])), true
		}}
	case reflect.Chan:
		return iter{hasIndex: false, next: func() (interface{}, interface{}, bool) {
			rv, ok := v.Recv()
			if !ok {
				return nil, nil, false
			}
			return nil, unwrap(rv), true
		}}
	}
	e.fail("range-over-non-rangeable", at)
	return iter{}
}

func unwrap(v reflect.Value) interface{} {
	if !v.IsValid() {
		return nil
	}
	if v.Kind() == reflect.Interface {
		if v.IsNil() {
			return nil
		}
		v = v.Elem()
	}
	if !v.CanInterface() {
		return nil
	}
	return v.Interface()
}

func (e *env) include(nameX, ctxX Expr, at interface{}, rel bool, optional bool) (found bool) {
	nv := e.eval(nameX)
	name, ok := nv.(string)
	if !ok {
		e.fail("include-name-not-string", at)
	}
	f := e.lookupFile(e.resolveName(name, e.file, rel))
	if f == nil {
		if optional {
			return false
		}
		e.fail("unknown-template", at)
	}
	if f.Broken {
		// the template exists but cannot be used: an error for include and exec, and for includeIfExists too
		// ("behaves like include when the template exists")
		e.fail("template-does-not-parse", at)
	}
	oCtx, oFile := e.ctx, e.file
	e.sc = &scope{parent: e.sc, vars: map[string]interface{}{}, blocks: e.table(f.Name, 0)}
	defer func() {
		e.pop()
		e.ctx, e.file = oCtx, oFile
	}()
	if ctxX != nil {
		// the context expression is evaluated with the caller's variables
		cur := e.sc
		e.sc = cur.parent
		e.ctx = e.eval(ctxX)
		e.sc = cur
	}
	root := e.rootOf(f, 0)
	e.file = root.Name
	rc := e.retCount
	e.list(root.Body)
	if e.retCount != rc && e.rangeDepth > 0 {
		// whether a return inside an included template ends the includer's loop is not fixed anywhere
		panic(Unspec("return executed in an included template while the includer is inside a range"))
	}
	if e.retCount != rc && optional && e.execDepth > 0 {
		// includeIfExists is an expression: whether a return inside the template it renders reaches the
		// enclosing exec is not fixed by the statement
		panic(Unspec("return executed in a template rendered by includeIfExists"))
	}
	return true
}

func (e *env) try(s *Try) {
	oOut, oSc, oCtx, oCont, oFile, oRet, oRetSet := e.out, e.sc, e.ctx, e.cont, e.file, e.ret, e.retSet
	buf := &bytes.Buffer{}
	e.out = buf
	var caught *RefError
	func() {
		defer func() {
			if x := recover(); x != nil {
				re, ok := x.(*RefError)
				if !ok {
					panic(x)
				}
				caught = re
			}
		}()
		e.list(s.Body)
	}()
	e.out = oOut
	if caught == nil {
		e.out.Write(buf.Bytes())
		return
	}
	// transactional: everything is as it was before the try
	e.sc, e.ctx, e.cont, e.file = oSc, oCtx, oCont, oFile
	e.ret, e.retSet = oRet, oRetSet
	if s.HasCatch {
		if s.CatchVar != "" {
			e.push()
			defer e.pop()
			e.sc.vars[s.CatchVar] = caughtValue{caught}
		}
		e.list(s.Catch)
	}
}

// caughtValue stands for the error bound to a catch variable; its text is not
// fixed by the property, so rendering it makes the case unspecified.
type caughtValue struct{ e *RefError }

func (e *env) emit(s *Emit) {
	if inc, ok := s.E.(*IncIf); ok && s.Writer == "" && len(s.Pipe) == 0 {
		// {{ includeIfExists(...) }} renders the template (if any) and nothing for the boolean
		e.include(inc.Name, inc.Ctx, s, false, true)
		return
	}
	v := e.evalAt(s.E, s)
	for _, f := range s.Pipe {
		fn, ok := e.lookup(f)
		if !ok {
			e.fail("unknown-identifier", s)
		}
		v = e.callValue(fn, []interface{}{v}, s)
	}
	if _, bad := v.(caughtValue); bad {
		panic(Unspec("rendering the text of a caught error"))
	}
	if s.Writer != "" {
		w, ok := SafeWriters[s.Writer]
		if !ok {
			panic(Unspec("unknown safe writer " + s.Writer))
		}
		if v == nil {
			panic(Unspec("nil piped into a safe writer"))
		}
		e.out.WriteString(w(Print(v)))
		for _, m := range s.More {
			mv := e.evalAt(m, s)
			if mv == nil {
				panic(Unspec("nil argument of a safe writer"))
			}
			e.out.WriteString(w(Print(mv)))
		}
		return
	}
	if v == nil {
		return
	}
	e.out.WriteString(e.esc(Print(v)))
}

func (e *env) evalAt(x Expr, at interface{}) interface{} {
	defer func() {
		if r := recover(); r != nil {
			if re, ok := r.(*RefError); ok && re.At == nil {
				re.At = at
			}
			panic(r)
		}
	}()
	return e.eval(x)
}

// Print is the documented textual form of a rendered value.
func Print(v interface{}) string {
	switch x := v.(type) {
	case nil:
		return ""
	case string:
		return x
	case bool:
		if x {
			return "true"
		}
		return "false"
	case fmt.Stringer:
		if rv := reflect.ValueOf(v); rv.Kind() == reflect.Ptr && rv.IsNil() {
			panic(Unspec("nil Stringer"))
		}
		return x.String()
	case error:
		return x.Error()
	case []byte:
		return string(x)
	}
	rv := reflect.ValueOf(v)
	for i := 0; i < 2 && rv.Kind() == reflect.Ptr; i++ {
		if rv.IsNil() {
			panic(Unspec("printing a typed nil pointer"))
		}
		rv = rv.Elem()
		if rv.CanInterface() {
			if s, ok := rv.Interface().(fmt.Stringer); ok {
				return s.String()
			}
		}
	}
	switch rv.Kind() {
	case reflect.String:
		return rv.String()
	case reflect.Int, reflect.Int8, reflect.Int16, reflect.Int32, reflect.Int64:
		return strconv.FormatInt(rv.Int(), 10)
	case reflect.Uint, reflect.Uint8, reflect.Uint16, reflect.Uint32, reflect.Uint64:
		return strconv.FormatUint(rv.Uint(), 10)
	case reflect.Float32, reflect.Float64:
		return FormatFloat(rv.Float())
	case reflect.Bool:
		if rv.Bool() {
			return "true"
		}
		return "false"
	}
	return fmt.Sprint(rv.Interface())
}

// FormatFloat: shortest decimal representation without exponent for the small
// magnitudes used by the generators (checked against the implementation by the
// self-test of the harness; larger magnitudes are not used).
func FormatFloat(f float64) string {
	if f != f || f > 1e15 || f < -1e15 {
		panic(Unspec("float outside the printable alphabet"))
	}
	if f == 0 && math.Signbit(f) {
		panic(Unspec("printing negative zero"))
	}
	return strconv.FormatFloat(f, 'f', -1, 64)
}

// Truthy: anything but false, numeric zero, "" and nil. Zero-valued structs and
// arrays are not covered by that sentence's examples; they are left unspecified.
func Truthy(v interface{}) bool {
	if v == nil {
		return false
	}
	if _, ok := v.(caughtValue); ok {
		return true
	}
	rv := reflect.ValueOf(v)
	switch rv.Kind() {
	case reflect.Bool:
		return rv.Bool()
	case reflect.Int, reflect.Int8, reflect.Int16, reflect.Int32, reflect.Int64:
		return rv.Int() != 0
	case reflect.Uint, reflect.Uint8, reflect.Uint16, reflect.Uint32, reflect.Uint64:
		return rv.Uint() != 0
	case reflect.Float32, reflect.Float64:
		return rv.Float() != 0
	case reflect.String:
		return rv.Len() > 0
	case reflect.Ptr, reflect.Map, reflect.Slice, reflect.Interface, reflect.Func, reflect.Chan:
		return !rv.IsNil()
	case reflect.Struct, reflect.Array:
		if rv.IsZero() {
			panic(Unspec("truthiness of a zero-valued struct/array"))
		}
		return true
	}
	return true
}

// api gives the documented meaning of the Runtime methods in terms of template syntax.
func (e *env) api(s *API) {
	var v interface{}
	if s.Val != nil {
		v = e.eval(s.Val)
	}
	inScopes := func(name string) bool {
		for sc := e.sc; sc != nil; sc = sc.parent {
			if _, ok := sc.vars[name]; ok {
				return true
			}
		}
		return false
	}
	switch s.Op {
	case "Let": // := in the innermost open scope
		if e.quirk("api-let-ignores-unopened-list-scope") && !e.listOpened() {
			e.outerOfList().vars[s.Name] = v
			return
		}
		e.declare(s.Name, v)
	case "Set": // =
		e.assign(s.Name, v, s)
	case "SetOrLet":
		if inScopes(s.Name) {
			e.assign(s.Name, v, s)
			return
		}
		if _, ok := e.lookup(s.Name); ok {
			panic(Unspec("SetOrLet on a name that is only a global or built-in"))
		}
		if e.quirk("api-let-ignores-unopened-list-scope") && !e.listOpened() {
			e.outerOfList().vars[s.Name] = v
			return
		}
		e.declare(s.Name, v)
	case "LetGlobal": // the outermost template scope
		sc := e.sc
		for sc.parent != nil {
			sc = sc.parent
		}
		if sc.vars == nil {
			// with a nil VarMap it is not fixed whether "outermost template scope" means the (absent)
			// VarMap level or the template's top-level body
			panic(Unspec("LetGlobal with a nil VarMap"))
		}
		sc.vars[s.Name] = v
	case "Resolve":
		val, ok := e.lookup(s.Name)
		if ok && val != nil {
			if rv := reflect.ValueOf(val); rv.Kind() == reflect.Func {
				panic(Unspec("rendering a function value"))
			}
			e.out.WriteString(e.esc(Print(val)))
		}
	case "MustResolve":
		val, ok := e.lookup(s.Name)
		if !ok {
			e.fail("unknown-identifier", s)
		}
		if val != nil {
			e.out.WriteString(e.esc(Print(val)))
		}
	case "Context":
		if e.ctx != nil {
			e.out.WriteString(e.esc(Print(e.ctx)))
		}
	case "Yield": // {{ yield name() ctx }}, exactly once
		b := e.getBlock(s.Name)
		if b == nil {
			e.fail("unknown-block", s)
		}
		if len(b.def.Params) > 0 {
			panic(Unspec("YieldBlock of a block with parameters"))
		}
		if bodyYieldsContent(b.def.Body) {
			panic(Unspec("YieldBlock of a block that shows content"))
		}
		oCtx, oFile := e.ctx, e.file
		if v != nil {
			e.ctx = v
		}
		e.file = b.file
		e.blockDepth++
		func() {
			defer func() { e.ctx, e.file = oCtx, oFile; e.blockDepth-- }()
			e.list(b.def.Body)
		}()
	default:
		panic("refjet: api op " + s.Op)
	}
}
