package refjet

import (
	"bytes"
	"fmt"
	"math"
	"reflect"
)

type numKind int

const (
	kOther numKind = iota
	kInt
	kUint
	kFloat
	kString
	kBool
	kNil
)

func kindOf(v interface{}) numKind {
	if v == nil {
		return kNil
	}
	switch reflect.ValueOf(v).Kind() {
	case reflect.Int, reflect.Int8, reflect.Int16, reflect.Int32, reflect.Int64:
		return kInt
	case reflect.Uint, reflect.Uint8, reflect.Uint16, reflect.Uint32, reflect.Uint64:
		return kUint
	case reflect.Float32, reflect.Float64:
		return kFloat
	case reflect.String:
		return kString
	case reflect.Bool:
		return kBool
	}
	return kOther
}

func asInt(v interface{}) int64     { return reflect.ValueOf(v).Int() }
func asFloat(v interface{}) float64 {
	rv := reflect.ValueOf(v)
	if kindOf(v) == kInt {
		return float64(rv.Int())
	}
	return rv.Float()
}

func (e *env) eval(x Expr) interface{} {
	switch x := x.(type) {
	case *Lit:
		return x.V
	case *Raw:
		return x.V
	case *Paren:
		return e.eval(x.X)
	case *Var:
		v, ok := e.lookup(x.Name)
		if !ok {
			e.fail("unknown-identifier", nil)
		}
		return v
	case *Dot:
		return e.ctx
	case *Field:
		var base interface{}
		if x.X == nil {
			base = e.ctx
		} else {
			base = e.eval(x.X)
		}
		v, st := Member(base, x.Name)
		switch st {
		case MErr:
			e.fail("bad-field-access", nil)
		case MUnspec:
			panic(Unspec("field access outside the specified core"))
		case MAbsent:
			panic(Unspec("a.b on a map without that key"))
		}
		return v
	case *Index:
		v, _ := e.indexLookup(x)
		return v
	case *Slice:
		return e.slice(x)
	case *Un:
		return e.unary(x)
	case *Bin:
		return e.binary(x)
	case *Tern:
		if Truthy(e.eval(x.C)) {
			return e.eval(x.A)
		}
		return e.eval(x.B)
	case *Call:
		fn := e.eval(x.Fn)
		args := make([]interface{}, len(x.Args))
		for i, a := range x.Args {
			args[i] = e.eval(a)
		}
		return e.callValue(fn, args, nil)
	case *IsSet:
		for _, a := range x.Args {
			if !e.isset(a) {
				return false
			}
		}
		return true
	case *Exec:
		return e.exec(x)
	case *IncIf:
		return e.include(x.Name, x.Ctx, nil, false, true)
	}
	panic(fmt.Sprintf("refjet: unknown expr %T", x))
}

func (e *env) exec(x *Exec) interface{} {
	oOut, oRet, oRetSet, oDepth, oRange := e.out, e.ret, e.retSet, e.blockDepth, e.rangeDepth
	e.out = &bytes.Buffer{}
	e.ret, e.retSet, e.blockDepth, e.rangeDepth = nil, false, 0, 0
	e.execDepth++
	defer func() { e.execDepth-- }()
	defer func() { e.out, e.ret, e.retSet, e.blockDepth, e.rangeDepth = oOut, oRet, oRetSet, oDepth, oRange }()
	e.include(x.Name, x.Ctx, nil, false, false)
	if !e.retSet {
		return nil
	}
	return e.ret
}

func (e *env) isset(x Expr) (ok bool) {
	oSc, oCtx, oCont, oFile, oOut, oRet, oRetSet, oBD, oRD := e.sc, e.ctx, e.cont, e.file, e.out, e.ret, e.retSet, e.blockDepth, e.rangeDepth
	defer func() {
		if r := recover(); r != nil {
			if _, isErr := r.(*RefError); isErr {
				// a failure below isset is swallowed: everything is as it was before the argument was looked at
				e.sc, e.ctx, e.cont, e.file, e.out, e.ret, e.retSet, e.blockDepth, e.rangeDepth = oSc, oCtx, oCont, oFile, oOut, oRet, oRetSet, oBD, oRD
				ok = false
				return
			}
			panic(r)
		}
	}()
	switch x := x.(type) {
	case *Var:
		v, found := e.lookup(x.Name)
		return found && notNil(v)
	case *Field:
		var base interface{}
		if x.X == nil {
			base = e.ctx
		} else if ex, isExec := x.X.(*Exec); isExec {
			// a member of what exec returns: the execution happens; a failure inside it is swallowed like any other
			// failure below isset (the answer is false, and nothing of the execution stays behind)
			e.exec(ex)
			panic(Unspec("isset of a member of the value a successful exec returns"))
		} else {
			if !e.isset(x.X) {
				return false
			}
			base = e.eval(x.X)
		}
		v, st := Member(base, x.Name)
		if st == MUnspec {
			panic(Unspec("isset: access outside the specified core"))
		}
		return st == MOk && notNil(v)
	case *Index:
		if !e.isset(x.X) || !e.isset(x.I) {
			return false
		}
		v, present := e.indexLookup(x)
		_ = present
		return notNil(v)
	case *Dot:
		return notNil(e.ctx)
	case *Lit:
		return x.V != nil
	}
	panic(Unspec("isset of an expression that is not an access path"))
}

func notNil(v interface{}) bool {
	if v == nil {
		return false
	}
	rv := reflect.ValueOf(v)
	switch rv.Kind() {
	case reflect.Chan, reflect.Func, reflect.Interface, reflect.Map, reflect.Ptr, reflect.Slice:
		return !rv.IsNil()
	}
	return true
}

func (e *env) unary(x *Un) interface{} {
	v := e.eval(x.X)
	switch x.Op {
	case "!", "not":
		return !Truthy(v)
	case "-":
		switch kindOf(v) {
		case kInt:
			return -asInt(v)
		case kFloat:
			return -asFloat(v)
		case kUint:
			panic(Unspec("negating an unsigned value"))
		}
		e.fail("unary-minus-non-numeric", nil)
	}
	panic("refjet: unary op " + x.Op)
}

func (e *env) binary(x *Bin) interface{} {
	switch x.Op {
	case "&&":
		if !Truthy(e.eval(x.L)) {
			return false
		}
		return Truthy(e.eval(x.R))
	case "||":
		if Truthy(e.eval(x.L)) {
			return true
		}
		return Truthy(e.eval(x.R))
	}
	l := e.eval(x.L)
	r := e.eval(x.R)
	kl, kr := kindOf(l), kindOf(r)
	if _, ok := l.(caughtValue); ok {
		panic(Unspec("operating on a caught error"))
	}
	switch x.Op {
	case "==", "!=":
		eq := e.equal(l, r, kl, kr)
		if x.Op == "!=" {
			return !eq
		}
		return eq
	case "+":
		if kl == kString {
			switch kr {
			case kString, kInt, kFloat, kBool:
				return reflect.ValueOf(l).String() + Print(r)
			case kNil:
				e.fail("operand-nil", nil)
			}
			panic(Unspec("string + value of an unusual kind"))
		}
	}
	if kl == kNil || kr == kNil {
		if x.Op == "+" || x.Op == "-" {
			e.fail("operand-nil", nil)
		}
		panic(Unspec("nil operand"))
	}
	// Go integers of unsigned kind: the operation is integral like for signed ones. What is not fixed is what a
	// negative value, an underflow or a value beyond the other kind's range means next to them.
	if kl == kUint || kr == kUint {
		asU := func(v interface{}, k numKind) uint64 {
			if k == kUint {
				return reflect.ValueOf(v).Uint()
			}
			n := asInt(v)
			if n < 0 {
				panic(Unspec("negative operand next to an unsigned one"))
			}
			return uint64(n)
		}
		switch {
		case kl == kFloat || kr == kFloat:
			for _, p := range []*interface{}{&l, &r} {
				if kindOf(*p) == kFloat && asFloat(*p) < 0 {
					panic(Unspec("negative operand next to an unsigned one"))
				}
				if kindOf(*p) == kUint {
					u := reflect.ValueOf(*p).Uint()
					if u > 1<<53 {
						panic(Unspec("unsigned integer beyond 2^53 in a floating-point operation"))
					}
					*p = float64(u)
				}
			}
			kl, kr = kindOf(l), kindOf(r)
		case (kl == kUint || kl == kInt) && (kr == kUint || kr == kInt):
			a, b := asU(l, kl), asU(r, kr)
			if a > 1<<62 || b > 1<<62 {
				panic(Unspec("unsigned operand beyond 2^62"))
			}
			var res uint64
			switch x.Op {
			case "+":
				res = a + b
			case "-":
				if b > a {
					panic(Unspec("unsigned subtraction below zero"))
				}
				res = a - b
			case "*":
				if a != 0 && b > (1<<62)/a {
					panic(Unspec("unsigned multiplication overflow"))
				}
				res = a * b
			case "/":
				if b == 0 {
					panic(Unspec("integer division by zero"))
				}
				res = a / b
			case "%":
				if b == 0 {
					panic(Unspec("integer modulo zero"))
				}
				res = a % b
			case "<":
				return a < b
			case "<=":
				return a <= b
			case ">":
				return a > b
			case ">=":
				return a >= b
			}
			if kl == kUint {
				return res // the result keeps the left operand's signedness
			}
			return int64(res)
		}
	}
	numeric := func(k numKind) bool { return k == kInt || k == kFloat }
	if !numeric(kl) {
		if kl == kUint {
			panic(Unspec("unsigned operand"))
		}
		if x.Op == "-" && kl == kString {
			e.fail("minus-on-string", nil)
		}
		e.fail("left-operand-non-numeric", nil)
	}
	if !numeric(kr) {
		// jet converts strings and bools on the right; the property does not define that
		panic(Unspec("right operand is not a number"))
	}
	if kl == kInt && kr == kInt {
		a, b := asInt(l), asInt(r)
		switch x.Op {
		case "+":
			return a + b
		case "-":
			return a - b
		case "*":
			return a * b
		case "/":
			if b == 0 {
				panic(Unspec("integer division by zero"))
			}
			return a / b
		case "%":
			if b == 0 {
				panic(Unspec("integer modulo zero"))
			}
			return a % b
		case "<":
			return a < b
		case "<=":
			return a <= b
		case ">":
			return a > b
		case ">=":
			return a >= b
		}
	}
	for _, v := range []interface{}{l, r} {
		if kindOf(v) == kInt {
			if n := asInt(v); n > 1<<53 || n < -(1<<53) {
				panic(Unspec("integer beyond 2^53 in a floating-point operation (not exactly representable)"))
			}
		}
	}
	a, b := asFloat(l), asFloat(r)
	switch x.Op {
	case "+":
		return a + b
	case "-":
		return a - b
	case "*":
		return a * b
	case "/":
		if b == 0 {
			panic(Unspec("float division by zero"))
		}
		return a / b
	case "%":
		if b == 0 || math.Trunc(b) == 0 {
			panic(Unspec("modulo by (a value truncating to) zero"))
		}
		if e.quirk("float-mod-truncates-operands") {
			return int64(a) % int64(b)
		}
		return math.Mod(a, b)
	case "<":
		return a < b
	case "<=":
		return a <= b
	case ">":
		return a > b
	case ">=":
		return a >= b
	}
	panic("refjet: binary op " + x.Op)
}

func (e *env) equal(l, r interface{}, kl, kr numKind) bool {
	// unsigned Go integers compare by value like signed ones
	for _, p := range []struct {
		v *interface{}
		k *numKind
	}{{&l, &kl}, {&r, &kr}} {
		if *p.k == kUint {
			u := reflect.ValueOf(*p.v).Uint()
			if u > 1<<62 {
				panic(Unspec("unsigned operand beyond 2^62"))
			}
			*p.v, *p.k = int64(u), kInt
		}
	}
	switch {
	case kl == kNil && kr == kNil:
		return true
	case kl == kNil || kr == kNil:
		// a number, string or boolean is not nil (equality "always yields true or false"); for pointers,
		// maps, slices, interfaces ... what counts as nil is not fixed here
		if o := kl + kr - kNil; o == kInt || o == kFloat || o == kString || o == kBool {
			return false
		}
		panic(Unspec("comparing with nil"))
	case kl == kInt && kr == kInt:
		return asInt(l) == asInt(r)
	case (kl == kInt || kl == kFloat) && (kr == kInt || kr == kFloat):
		for _, v := range []interface{}{l, r} {
			if kindOf(v) == kInt {
				if n := asInt(v); n > 1<<53 || n < -(1<<53) {
					panic(Unspec("integer beyond 2^53 compared with a float"))
				}
			}
		}
		return asFloat(l) == asFloat(r)
	case kl == kString && kr == kString:
		return reflect.ValueOf(l).String() == reflect.ValueOf(r).String()
	case kl == kBool && kr == kBool:
		return reflect.ValueOf(l).Bool() == reflect.ValueOf(r).Bool()
	}
	panic(Unspec("equality between different kinds"))
}

func (e *env) slice(x *Slice) interface{} {
	base := e.eval(x.X)
	if base == nil {
		panic(Unspec("slicing nil"))
	}
	rv := reflect.ValueOf(base)
	for rv.Kind() == reflect.Ptr || rv.Kind() == reflect.Interface {
		panic(Unspec("slicing through a pointer"))
	}
	switch rv.Kind() {
	case reflect.Slice, reflect.String:
	case reflect.Array:
		panic(Unspec("slicing an array value (needs addressability)"))
	default:
		panic(Unspec("slicing a non-sliceable value"))
	}
	bound := func(b Expr, def int) int {
		if b == nil {
			return def
		}
		v := e.eval(b)
		switch kindOf(v) {
		case kInt:
			return int(asInt(v))
		case kFloat:
			f := asFloat(v)
			if f != math.Trunc(f) {
				panic(Unspec("fractional slice bound"))
			}
			return int(f)
		case kUint:
			return int(reflect.ValueOf(v).Uint())
		}
		e.fail("slice-bound-wrong-kind", nil)
		return 0
	}
	lo := bound(x.Lo, 0)
	hi := bound(x.Hi, rv.Len())
	max := rv.Len()
	if rv.Kind() == reflect.Slice {
		// Go allows re-slicing up to capacity; the property speaks of out-of-range bounds
		if hi > rv.Len() && hi <= rv.Cap() {
			panic(Unspec("slice bound between len and cap"))
		}
	}
	if lo < 0 || hi < lo || hi > max {
		e.fail("slice-bound-out-of-range", nil)
	}
	return rv.Slice(lo, hi).Interface()
}

// indexLookup evaluates a[k]; present reports map key presence (true for other kinds).
func (e *env) indexLookup(x *Index) (v interface{}, present bool) {
	base := e.eval(x.X)
	idx := e.eval(x.I)
	v, st := IndexOf(base, idx)
	switch st {
	case MErr:
		e.fail("bad-index", nil)
	case MUnspec:
		panic(Unspec("index expression outside the specified core"))
	case MAbsent:
		return nil, false
	}
	return v, true
}

// callValue calls a Go function value with reference-evaluated arguments.
func (e *env) callValue(fn interface{}, args []interface{}, at interface{}) interface{} {
	if fn == nil {
		e.fail("call-of-nil", at)
	}
	fv := reflect.ValueOf(fn)
	if rf, ok := fn.(RefFunc); ok {
		return rf(e, args)
	}
	if fv.Kind() != reflect.Func {
		e.fail("call-of-non-function", at)
	}
	ft := fv.Type()
	nIn := ft.NumIn()
	if ft.IsVariadic() {
		if len(args) < nIn-1 {
			e.fail("too-few-arguments", at)
		}
	} else if len(args) != nIn {
		e.fail("wrong-argument-count", at)
	}
	in := make([]reflect.Value, len(args))
	for i, a := range args {
		var pt reflect.Type
		if ft.IsVariadic() && i >= nIn-1 {
			pt = ft.In(nIn - 1).Elem()
		} else {
			pt = ft.In(i)
		}
		if a == nil {
			e.fail("nil-argument", at)
		}
		av := reflect.ValueOf(a)
		switch {
		case av.Type().AssignableTo(pt):
		case convertibleArg(av, pt):
			av = av.Convert(pt)
		default:
			e.fail("unconvertible-argument", at)
		}
		in[i] = av
	}
	var out []reflect.Value
	func() {
		defer func() {
			if r := recover(); r != nil {
				if _, ok := r.(*RefError); ok {
					panic(r)
				}
				if _, ok := r.(Unspec); ok {
					panic(r)
				}
				panic(&RefError{Class: "callee-panicked", At: at, File: e.file, Val: r})
			}
		}()
		out = fv.Call(in)
	}()
	if len(out) == 0 {
		return nil
	}
	return unwrap(out[0])
}

// convertibleArg: numeric kinds convert into each other, named types into their
// underlying basic kind and back; anything else is "an invalid value".
func convertibleArg(av reflect.Value, pt reflect.Type) bool {
	num := func(k reflect.Kind) bool {
		return k >= reflect.Int && k <= reflect.Float64 && k != reflect.Uintptr
	}
	ak, pk := av.Kind(), pt.Kind()
	if num(ak) && num(pk) {
		if ak == reflect.Float32 || ak == reflect.Float64 {
			f := av.Float()
			if f != math.Trunc(f) && pk != reflect.Float32 && pk != reflect.Float64 {
				panic(Unspec("fractional float converted to an integer parameter"))
			}
		}
		return true
	}
	if ak == pk && (ak == reflect.String || ak == reflect.Bool) {
		return true
	}
	if av.Type().ConvertibleTo(pt) {
		panic(Unspec("unusual argument conversion"))
	}
	return false
}

// RefFunc is a harness function with an explicit reference semantics.
type RefFunc func(e *env, args []interface{}) interface{}

// IntsRef is the reference model of ints(a,b): the integers a..b-1 with indexes 0..
type IntsRef struct{ From, To, next int64 }

func (r *IntsRef) RefHasIndex() bool { return true }
func (r *IntsRef) RefNext() (interface{}, interface{}, bool) {
	v := r.From + r.next
	if v >= r.To {
		return nil, nil, false
	}
	r.next++
	return r.next - 1, v, true
}

func init() {
	Builtins["ints"] = RefFunc(func(e *env, args []interface{}) interface{} {
		if len(args) != 2 {
			e.fail("ints-argument-count", nil)
		}
		var n [2]int64
		for i, a := range args {
			switch kindOf(a) {
			case kInt:
				n[i] = asInt(a)
			case kFloat:
				f := asFloat(a)
				if f != math.Trunc(f) {
					panic(Unspec("ints with a fractional bound"))
				}
				n[i] = int64(f)
			default:
				e.fail("ints-argument-kind", nil)
			}
		}
		if n[1] <= n[0] {
			e.fail("ints-empty-range", nil)
		}
		return &IntsRef{From: n[0], To: n[1]}
	})
}
