package refjet

import (
	"math"
	"reflect"
)

// MStatus classifies the result of one access step.
type MStatus int

const (
	MOk     MStatus = iota
	MErr            // the property lists this as an error (missing/unexported field, out of range, nil dereference, wrong kind)
	MAbsent         // map key absent: the value is nil
	MUnspec         // the statement does not fix the outcome
)

// deref follows pointers and interfaces; nil anywhere is reported.
func deref(v reflect.Value) (reflect.Value, bool) {
	for v.Kind() == reflect.Ptr || v.Kind() == reflect.Interface {
		if v.IsNil() {
			return v, true
		}
		v = v.Elem()
	}
	return v, false
}

// Member resolves base.name: a method, an exported struct field (promoted ones
// included), or a map entry.
func Member(base interface{}, name string) (interface{}, MStatus) {
	if base == nil {
		return nil, MErr
	}
	v := reflect.ValueOf(base)
	rv, isNil := MemberV(v, name)
	_ = isNil
	return rv.Val, rv.St
}

type MRes struct {
	Val interface{}
	St  MStatus
	RV  reflect.Value
}

// MemberV is Member on reflect.Values (keeps addressability for the C06 resolver).
func MemberV(v reflect.Value, name string) (MRes, bool) {
	if !v.IsValid() {
		return MRes{St: MErr}, false
	}
	// methods: on the value itself, or on its address when it is addressable
	if m := v.MethodByName(name); m.IsValid() {
		if nd, isNil := deref(v); isNil && nd.Kind() == reflect.Ptr {
			if _, valueRecv := nd.Type().Elem().MethodByName(name); valueRecv {
				return MRes{St: MErr}, true // a value-receiver method needs to dereference the nil pointer
			}
			return MRes{St: MUnspec}, true // pointer-receiver method on a nil pointer: legal Go, not in the statement
		}
		return MRes{Val: m.Interface(), St: MOk, RV: m}, false
	}
	d, isNil := deref(v)
	if isNil {
		// a method with pointer receiver on a nil pointer is callable in Go; leave it out
		return MRes{St: MErr}, true
	}
	if d.CanAddr() {
		if m := d.Addr().MethodByName(name); m.IsValid() {
			return MRes{Val: m.Interface(), St: MOk, RV: m}, false
		}
	} else if d.Kind() == reflect.Struct {
		if _, ok := reflect.PtrTo(d.Type()).MethodByName(name); ok {
			return MRes{St: MUnspec}, false // pointer method on a non-addressable value
		}
	}
	if m := d.MethodByName(name); m.IsValid() {
		return MRes{Val: m.Interface(), St: MOk, RV: m}, false
	}
	switch d.Kind() {
	case reflect.Struct:
		f, ok := d.Type().FieldByName(name)
		if !ok {
			return MRes{St: MErr}, false
		}
		if f.PkgPath != "" {
			return MRes{St: MErr}, false
		}
		// promoted through a nil embedded pointer: error
		cur := d
		for i, ix := range f.Index {
			if i > 0 {
				for cur.Kind() == reflect.Ptr {
					if cur.IsNil() {
						return MRes{St: MErr}, false
					}
					cur = cur.Elem()
				}
			}
			cur = cur.Field(ix)
		}
		return MRes{Val: unwrap(cur), St: MOk, RV: cur}, false
	case reflect.Map:
		if d.Type().Key().Kind() != reflect.String {
			return MRes{St: MUnspec}, false
		}
		k := reflect.ValueOf(name).Convert(d.Type().Key())
		e := d.MapIndex(k)
		if !e.IsValid() {
			return MRes{St: MAbsent}, false
		}
		return MRes{Val: unwrap(e), St: MOk, RV: e}, false
	}
	return MRes{St: MErr}, false
}

// IndexOf resolves base[idx].
func IndexOf(base, idx interface{}) (interface{}, MStatus) {
	if base == nil {
		return nil, MErr
	}
	r := IndexV(reflect.ValueOf(base), idx)
	return r.Val, r.St
}

func intIndex(idx interface{}) (int, MStatus) {
	switch kindOf(idx) {
	case kInt:
		return int(asInt(idx)), MOk
	case kUint:
		return int(reflect.ValueOf(idx).Uint()), MOk
	case kFloat:
		f := asFloat(idx)
		if f != math.Trunc(f) {
			return 0, MUnspec
		}
		return int(f), MOk
	case kNil:
		return 0, MErr
	}
	return 0, MErr
}

func IndexV(v reflect.Value, idx interface{}) MRes {
	d, isNil := deref(v)
	if isNil {
		return MRes{St: MErr}
	}
	switch d.Kind() {
	case reflect.Slice, reflect.Array, reflect.String:
		if s, ok := idx.(string); ok {
			_ = s
			// a string index on a slice could name a method; otherwise it is the wrong kind
			if m, _ := MemberV(v, s); m.St == MOk {
				return MRes{St: MUnspec}
			}
			return MRes{St: MErr}
		}
		i, st := intIndex(idx)
		if st != MOk {
			return MRes{St: st}
		}
		if i < 0 || i >= d.Len() {
			return MRes{St: MErr}
		}
		e := d.Index(i)
		return MRes{Val: unwrap(e), St: MOk, RV: e}
	case reflect.Map:
		if idx == nil {
			return MRes{St: MUnspec}
		}
		kt := d.Type().Key()
		kv := reflect.ValueOf(idx)
		if s, ok := idx.(string); ok {
			if m := v.MethodByName(s); m.IsValid() {
				return MRes{St: MUnspec}
			}
		}
		switch {
		case kv.Type().AssignableTo(kt):
		case kt.Kind() == reflect.Interface:
			return MRes{St: MUnspec}
		case isNumKind(kv.Kind()) && isNumKind(kt.Kind()):
			if kv.Kind() == reflect.Float64 || kv.Kind() == reflect.Float32 {
				if f := kv.Float(); f != math.Trunc(f) && kt.Kind() != reflect.Float64 && kt.Kind() != reflect.Float32 {
					return MRes{St: MUnspec}
				}
			}
			kv = kv.Convert(kt)
		case kv.Kind() == kt.Kind() && kv.Type().ConvertibleTo(kt):
			kv = kv.Convert(kt)
		case kv.Type().ConvertibleTo(kt):
			return MRes{St: MUnspec} // e.g. int -> string conversions
		default:
			return MRes{St: MErr}
		}
		e := d.MapIndex(kv)
		if !e.IsValid() {
			return MRes{St: MAbsent}
		}
		return MRes{Val: unwrap(e), St: MOk, RV: e}
	case reflect.Struct:
		s, ok := idx.(string)
		if !ok {
			return MRes{St: MErr}
		}
		m, _ := MemberV(v, s)
		return m
	}
	return MRes{St: MErr}
}

func isNumKind(k reflect.Kind) bool {
	return k >= reflect.Int && k <= reflect.Float64 && k != reflect.Uintptr
}
