// Package refjet is the reference interpreter used as the oracle of the
// program-space checks. Its input is a generator AST (never source text): the
// printer renders the AST to jet source for the implementation, the evaluator
// computes the expected output directly from the tree. It shares no code with jet.
package refjet

import (
	"fmt"
	"strconv"
	"strings"
)

// ---------- expressions ----------

type Expr interface{ isExpr() }

type Lit struct {
	V   interface{} // nil, bool, float64 (every numeric literal), string
	Src string      // optional spelling override
}
type Var struct{ Name string }
type Dot struct{}
type Field struct { // X.Name ; X == nil means the context: .Name
	X    Expr
	Name string
}
type Index struct{ X, I Expr }
type Slice struct{ X, Lo, Hi Expr } // Lo/Hi may be nil
type Bin struct {
	Op   string // + - * / % < <= > >= == != && ||  (and / or spelt via Word)
	L, R Expr
	Word bool // print && as "and", || as "or"
}
type Un struct {
	Op string // "!" "not" "-"
	X  Expr
}
type Tern struct{ C, A, B Expr }
type Paren struct{ X Expr } // redundant parentheses (printing only)
type Call struct {
	Fn   Expr
	Args []Expr
}
type IsSet struct{ Args []Expr }
type Exec struct{ Name, Ctx Expr }
type IncIf struct{ Name, Ctx Expr }
type Raw struct { // opaque source with a fixed expected value (used sparingly)
	Src string
	V   interface{}
}

func (*Lit) isExpr()   {}
func (*Var) isExpr()   {}
func (*Dot) isExpr()   {}
func (*Field) isExpr() {}
func (*Index) isExpr() {}
func (*Slice) isExpr() {}
func (*Bin) isExpr()   {}
func (*Un) isExpr()    {}
func (*Tern) isExpr()  {}
func (*Paren) isExpr() {}
func (*Call) isExpr()  {}
func (*IsSet) isExpr() {}
func (*Exec) isExpr()  {}
func (*IncIf) isExpr() {}
func (*Raw) isExpr()   {}

// ---------- statements ----------

type Stmt interface{ isStmt() }

type Text struct{ S string }
type Emit struct {
	E Expr
	// Writer, when set, names a SafeWriter applied as the last command.
	Writer string
	// WForm: 0 = {{v|w}}  1 = {{w: v}}  2 = {{w(v)}}
	WForm int
	// Pipe lists plain functions applied as pipeline stages before the writer: {{v|f|g}}
	Pipe []string
	// More lists further arguments of a safe writer in prefix / call form: {{w: v, a, b}}
	More []Expr
}
type Assign struct {
	Decl  bool // := (true) or = (false)
	Names []string // "_" discards
	Vals  []Expr
}
type If struct {
	Init *Assign
	Cond Expr
	Then []Stmt
	Else []Stmt
	HasElse bool
	// ElseIf prints the else branch as {{else if ...}} when Else is exactly one *If.
	ElseIf bool
}
type Range struct {
	K, V    string // "" = absent
	Decl    bool
	X       Expr
	Body    []Stmt
	Else    []Stmt
	HasElse bool
}
type Param struct {
	Name string
	Val  Expr // nil = no default / no value
}
type BlockDef struct {
	Name       string
	Params     []Param
	Ctx        Expr
	Body       []Stmt
	Content    []Stmt
	HasContent bool
}
type Yield struct {
	Name       string
	Args       []Param
	Ctx        Expr
	Content    []Stmt
	HasContent bool
}
type YieldContent struct{ Ctx Expr }
type Include struct{ Name, Ctx Expr }
type Try struct {
	Body     []Stmt
	HasCatch bool
	CatchVar string
	Catch    []Stmt
}
type Return struct{ E Expr }
type Comment struct{ S string }

// TrimmedText is whitespace the printer emits but that a trim marker of the neighbouring action removes:
// it counts for line numbers and contributes nothing to the output.
type TrimmedText struct{ S string }

// API is a call of a harness jet.Func that drives the Go-side Runtime API:
// {{ rtLet("x", v) }}, {{ rtSet("x", v) }}, {{ rtSetOrLet("x", v) }}, {{ rtLetGlobal("x", v) }},
// {{ rtResolve("x") }}, {{ rtMustResolve("x") }}, {{ rtContext() }}, {{ rtYield("block", ctx) }}.
type API struct {
	Op   string
	Name string
	Val  Expr
}

// FailStmt is an action (printed verbatim between the delimiters) that the
// reference expects to fail with the given class when it is executed.
type FailStmt struct{ Src, Class string }

// Fail is an action that fails when executed: {{ failfn() }} style helpers are
// ordinary Calls; Fail is kept for readability in generators.

func (*Text) isStmt()         {}
func (*Emit) isStmt()         {}
func (*Assign) isStmt()       {}
func (*If) isStmt()           {}
func (*Range) isStmt()        {}
func (*BlockDef) isStmt()     {}
func (*Yield) isStmt()        {}
func (*YieldContent) isStmt() {}
func (*Include) isStmt()      {}
func (*Try) isStmt()          {}
func (*Return) isStmt()       {}
func (*Comment) isStmt()      {}
func (*TrimmedText) isStmt()  {}
func (*FailStmt) isStmt()     {}
func (*API) isStmt()          {}

// File is one template of a program.
type File struct {
	Name    string
	Extends string
	Imports []string
	Body    []Stmt
	Broken  bool // the file exists but does not parse (its source is an unterminated control structure)
}

// Program is a closed test case: a template set, an entry point and its inputs.
type Program struct {
	Files []*File
	Entry string
	// Mk builds fresh inputs for one execution (channels, rangers and the call
	// log must not be shared between the reference run and the implementation run).
	Mk func(log *[]string) Inputs
	// Escaper: "" = default HTML, "nil" = none, or a name registered in Escapers.
	Escaper string
	// Quirks switches the reference to a named *deviant* behaviour of the
	// implementation. Never set by generators: the driver sets one quirk at a time
	// only to recognise a recorded known finding by its exact semantics.
	Quirks map[string]bool
}

type Inputs struct {
	Vars    map[string]interface{} // nil = nil VarMap
	Globals map[string]interface{}
	Data    interface{}
}

func (p *Program) File(name string) *File {
	for _, f := range p.Files {
		if f.Name == name {
			return f
		}
	}
	return nil
}

// ---------- printer ----------

// Pos records where the printer put a node (1-based lines of the opening action).
type Pos struct {
	File      string
	Line, End int
}

type Printer struct {
	L, R   string // action delimiters
	Full   bool   // fully parenthesise binary/ternary expressions
	Tight  bool   // no spaces around binary operators
	Words  bool   // spell && / || / ! as and / or / not
	Pad    string // padding inside delimiters ("" or " ")
	pos    map[interface{}]Pos
	b      strings.Builder
	line   int
	file   string
}

func NewPrinter() *Printer { return &Printer{L: "{{", R: "}}", pos: map[interface{}]Pos{}} }

func (p *Printer) PosOf(n interface{}) (Pos, bool) { x, ok := p.pos[n]; return x, ok }

func (p *Printer) w(s string) {
	p.b.WriteString(s)
	p.line += strings.Count(s, "\n")
}

func (p *Printer) open(n interface{}) func() {
	start := p.line
	p.w(p.L + p.Pad)
	return func() {
		p.w(p.Pad + p.R)
		p.pos[n] = Pos{File: p.file, Line: start, End: p.line}
	}
}

// Source renders one file.
func (p *Printer) Source(f *File) string {
	p.b.Reset()
	p.line = 1
	p.file = f.Name
	if f.Broken {
		return "before" + p.L + "if" + p.R + "no end"
	}
	if f.Extends != "" {
		p.w(p.L + "extends " + strconv.Quote(f.Extends) + p.R)
	}
	for _, im := range f.Imports {
		p.w(p.L + "import " + strconv.Quote(im) + p.R)
	}
	p.stmts(f.Body)
	return p.b.String()
}

func (p *Printer) stmts(l []Stmt) {
	for _, s := range l {
		p.stmt(s)
	}
}

func (p *Printer) end() { p.w(p.L + "end" + p.R) }

func (p *Printer) params(ps []Param) string {
	var parts []string
	for _, a := range ps {
		if a.Val == nil {
			parts = append(parts, a.Name)
		} else if a.Name == "" {
			parts = append(parts, p.Expr(a.Val))
		} else {
			parts = append(parts, a.Name+"="+p.Expr(a.Val))
		}
	}
	return "(" + strings.Join(parts, ", ") + ")"
}

func (p *Printer) assign(a *Assign) string {
	op := " = "
	if a.Decl {
		op = " := "
	}
	var vs []string
	for _, v := range a.Vals {
		vs = append(vs, p.Expr(v))
	}
	return strings.Join(a.Names, ", ") + op + strings.Join(vs, ", ")
}

func (p *Printer) stmt(s Stmt) {
	switch s := s.(type) {
	case *Text:
		p.w(s.S)
	case *Comment:
		p.w("{*" + s.S + "*}")
	case *TrimmedText:
		p.w(s.S)
	case *API:
		done := p.open(s)
		switch s.Op {
		case "Context":
			p.w("rtContext()")
		case "Resolve", "MustResolve":
			p.w("rt" + s.Op + "(" + strconv.Quote(s.Name) + ")")
		default:
			v := "nil"
			if s.Val != nil {
				v = p.Expr(s.Val)
			}
			p.w("rt" + s.Op + "(" + strconv.Quote(s.Name) + ", " + v + ")")
		}
		done()
	case *FailStmt:
		// "\x00" in Src marks the end of the opening action of a construct with a body:
		// the expected position is the opening action's line span only
		if i := strings.IndexByte(s.Src, 0); i >= 0 {
			start := p.line
			p.w(p.L + p.Pad + s.Src[:i])
			p.pos[s] = Pos{File: p.file, Line: start, End: p.line}
			p.w(s.Src[i+1:] + p.Pad + p.R)
			break
		}
		done := p.open(s)
		p.w(s.Src)
		done()
	case *Emit:
		done := p.open(s)
		src := p.Expr(s.E)
		for _, f := range s.Pipe {
			src += " | " + f
		}
		if s.Writer != "" {
			switch s.WForm {
			case 0:
				src += " | " + s.Writer
			case 1:
				src = s.Writer + ": " + src
				for _, m := range s.More {
					src += ", " + p.Expr(m)
				}
			case 2:
				for _, m := range s.More {
					src += ", " + p.Expr(m)
				}
				src = s.Writer + "(" + src + ")"
			}
		}
		p.w(src)
		done()
	case *Assign:
		done := p.open(s)
		p.w(p.assign(s))
		done()
	case *If:
		done := p.open(s)
		p.w("if ")
		if s.Init != nil {
			p.w(p.assign(s.Init) + "; ")
		}
		p.w(p.Expr(s.Cond))
		done()
		p.stmts(s.Then)
		p.elseChain(s)
		p.end()
	case *Range:
		done := p.open(s)
		p.w("range ")
		if s.K != "" || s.V != "" {
			names := s.K
			if s.V != "" {
				names += ", " + s.V
			}
			if s.Decl {
				p.w(names + " := ")
			} else {
				p.w(names + " = ")
			}
		}
		p.w(p.Expr(s.X))
		done()
		p.stmts(s.Body)
		if s.HasElse {
			p.w(p.L + "else" + p.R)
			p.stmts(s.Else)
		}
		p.end()
	case *BlockDef:
		done := p.open(s)
		p.w("block " + s.Name + p.params(s.Params))
		if s.Ctx != nil {
			p.w(" " + p.Expr(s.Ctx))
		}
		done()
		p.stmts(s.Body)
		if s.HasContent {
			p.w(p.L + "content" + p.R)
			p.stmts(s.Content)
		}
		p.end()
	case *Yield:
		done := p.open(s)
		p.w("yield " + s.Name + p.params(s.Args))
		if s.Ctx != nil {
			p.w(" " + p.Expr(s.Ctx))
		}
		if s.HasContent {
			p.w(" content")
		}
		done()
		if s.HasContent {
			p.stmts(s.Content)
			p.end()
		}
	case *YieldContent:
		done := p.open(s)
		p.w("yield content")
		if s.Ctx != nil {
			p.w(" " + p.Expr(s.Ctx))
		}
		done()
	case *Include:
		done := p.open(s)
		p.w("include " + p.Expr(s.Name))
		if s.Ctx != nil {
			p.w(" " + p.Expr(s.Ctx))
		}
		done()
	case *Try:
		done := p.open(s)
		p.w("try")
		done()
		p.stmts(s.Body)
		if s.HasCatch {
			if s.CatchVar != "" {
				p.w(p.L + "catch " + s.CatchVar + p.R)
			} else {
				p.w(p.L + "catch" + p.R)
			}
			p.stmts(s.Catch)
		}
		p.end()
	case *Return:
		done := p.open(s)
		p.w("return " + p.Expr(s.E))
		done()
	default:
		panic(fmt.Sprintf("printer: unknown stmt %T", s))
	}
}

func (p *Printer) elseChain(s *If) {
	if !s.HasElse {
		return
	}
	if s.ElseIf && len(s.Else) == 1 {
		if in, ok := s.Else[0].(*If); ok && in.Init == nil {
			start := p.line
			p.w(p.L + "else if " + p.Expr(in.Cond) + p.R)
			p.pos[in] = Pos{File: p.file, Line: start, End: p.line}
			p.stmts(in.Then)
			p.elseChain(in)
			return
		}
	}
	p.w(p.L + "else" + p.R)
	p.stmts(s.Else)
}

// precedence levels (higher binds tighter)
func prec(e Expr) int {
	switch e := e.(type) {
	case *Tern:
		return 1
	case *Bin:
		switch e.Op {
		case "&&", "||":
			return 2
		case "==", "!=":
			return 3
		case "<", "<=", ">", ">=":
			return 4
		case "+", "-":
			return 5
		default:
			return 6
		}
	case *Un:
		if e.Op == "-" {
			return 7
		}
		return 0 // '!' is always parenthesised when it is itself an operand
	case *Exec, *IncIf, *IsSet, *Call, *Index, *Slice, *Field:
		return 9
	}
	return 10
}

func (p *Printer) sub(e Expr, min int) string {
	s := p.Expr(e)
	if _, ok := e.(*Paren); ok {
		return s
	}
	pr := prec(e)
	if pr < min || (p.Full && pr < 9) {
		return "(" + s + ")"
	}
	return s
}

func quoteJet(s string) string {
	// jet string literals are Go interpreted strings without newlines
	return strconv.Quote(s)
}

func (p *Printer) Expr(e Expr) string {
	switch e := e.(type) {
	case *Lit:
		if e.Src != "" {
			return e.Src
		}
		switch v := e.V.(type) {
		case nil:
			return "nil"
		case bool:
			if v {
				return "true"
			}
			return "false"
		case string:
			return quoteJet(v)
		case float64:
			return strconv.FormatFloat(v, 'f', -1, 64)
		case int:
			return strconv.Itoa(v)
		}
		panic(fmt.Sprintf("printer: literal %T", e.V))
	case *Raw:
		return e.Src
	case *Var:
		return e.Name
	case *Dot:
		return "."
	case *Field:
		if e.X == nil {
			return "." + e.Name
		}
		if f, ok := e.X.(*Field); ok && f.X == nil {
			return "." + f.Name + "." + e.Name
		}
		return p.sub(e.X, 9) + "." + e.Name
	case *Index:
		return p.sub(e.X, 9) + "[" + p.Expr(e.I) + "]"
	case *Slice:
		lo, hi := "", ""
		if e.Lo != nil {
			lo = p.Expr(e.Lo)
		}
		if e.Hi != nil {
			hi = p.Expr(e.Hi)
		}
		return p.sub(e.X, 9) + "[" + lo + ":" + hi + "]"
	case *Paren:
		return "(" + p.Expr(e.X) + ")"
	case *Un:
		switch e.Op {
		case "-":
			return "-" + p.sub(e.X, 9)
		case "not":
			// the statement puts ! / not on the level of the logical connectives, below equality: its operand
			// reaches over arithmetic, relational and equality operators without parentheses (!a == b is !(a == b));
			// how it combines with && || ?: and another ! is not fixed, so those operands are parenthesised
			return "not " + p.sub(e.X, 3)
		default:
			if p.Words {
				return "not " + p.sub(e.X, 3)
			}
			return "!" + p.sub(e.X, 3)
		}
	case *Bin:
		pr := prec(e)
		op := e.Op
		if e.Word || p.Words {
			if op == "&&" {
				op = "and"
			} else if op == "||" {
				op = "or"
			}
		}
		l := p.sub(e.L, pr)      // left-associative: same level on the left needs no parentheses
		r := p.sub(e.R, pr+1)    // same level on the right does
		if p.Tight && !e.Word && !p.Words {
			return l + op + r
		}
		return l + " " + op + " " + r
	case *Tern:
		c := p.sub(e.C, 2)
		a := p.sub(e.A, 1)
		b := p.sub(e.B, 1) // right-nested without parentheses
		if _, ok := e.A.(*Tern); ok && !p.Full {
			a = "(" + p.Expr(e.A) + ")"
		}
		return c + " ? " + a + " : " + b
	case *Call:
		var as []string
		for _, a := range e.Args {
			as = append(as, p.Expr(a))
		}
		return p.sub(e.Fn, 9) + "(" + strings.Join(as, ", ") + ")"
	case *IsSet:
		var as []string
		for _, a := range e.Args {
			as = append(as, p.Expr(a))
		}
		return "isset(" + strings.Join(as, ", ") + ")"
	case *Exec:
		if e.Ctx != nil {
			return "exec(" + p.Expr(e.Name) + ", " + p.Expr(e.Ctx) + ")"
		}
		return "exec(" + p.Expr(e.Name) + ")"
	case *IncIf:
		if e.Ctx != nil {
			return "includeIfExists(" + p.Expr(e.Name) + ", " + p.Expr(e.Ctx) + ")"
		}
		return "includeIfExists(" + p.Expr(e.Name) + ")"
	}
	panic(fmt.Sprintf("printer: unknown expr %T", e))
}

// ---------- small constructors for generators ----------

func S(s string) *Lit        { return &Lit{V: s} }
func N(f float64) *Lit       { return &Lit{V: f} }
func B(b bool) *Lit          { return &Lit{V: b} }
func Nil() *Lit              { return &Lit{V: nil} }
func V(n string) *Var        { return &Var{Name: n} }
func T(s string) *Text       { return &Text{S: s} }
func E(e Expr) *Emit         { return &Emit{E: e} }
func Let(n string, e Expr) *Assign { return &Assign{Decl: true, Names: []string{n}, Vals: []Expr{e}} }
func Set(n string, e Expr) *Assign { return &Assign{Decl: false, Names: []string{n}, Vals: []Expr{e}} }
func F(x Expr, n string) *Field { return &Field{X: x, Name: n} }
func CallV(fn string, args ...Expr) *Call { return &Call{Fn: &Var{Name: fn}, Args: args} }
