package props

import (
	"fmt"

	"verif/mc/internal/core"
	rj "verif/mc/internal/refjet"
)

// C05 — if renders exactly one branch; range runs once per element, else iff empty.

type c05Cond struct {
	name string
	mk   func() interface{}
	lit  rj.Expr // literal spelling instead of a variable
}

var zeroInt int

var c05Conds = []c05Cond{
	{"cF", func() interface{} { return false }, nil},
	{"cT", func() interface{} { return true }, nil},
	{"cI0", func() interface{} { return 0 }, nil},
	{"cI1", func() interface{} { return 1 }, nil},
	{"cIneg", func() interface{} { return -3 }, nil},
	{"cFl0", func() interface{} { return 0.0 }, nil},
	{"cFl", func() interface{} { return 2.5 }, nil},
	{"cFlHalf", func() interface{} { return 0.5 }, nil},              // non-zero, but truncates to 0
	{"cFlNegQ", func() interface{} { return float32(-0.25) }, nil},
	{"cI8", func() interface{} { return int8(-1) }, nil},
	{"cU64big", func() interface{} { return uint64(1) << 63 }, nil}, // non-zero, but negative / zero after a signed or 32-bit conversion
	{"cI64hi", func() interface{} { return int64(1) << 32 }, nil},
	{"cS0", func() interface{} { return "" }, nil},
	{"cSa", func() interface{} { return "a" }, nil},
	{"cSsp", func() interface{} { return " " }, nil},
	{"cS00", func() interface{} { return "0" }, nil},
	{"cNil", func() interface{} { return nil }, nil},
	{"cNilPtr", func() interface{} { return (*int)(nil) }, nil},
	{"cPtr0", func() interface{} { return &zeroInt }, nil},
	{"cSlNil", func() interface{} { return []string(nil) }, nil},
	{"cSlEmpty", func() interface{} { return []string{} }, nil},
	{"cSl", func() interface{} { return []string{"a"} }, nil},
	{"cMapNil", func() interface{} { return map[string]int(nil) }, nil},
	{"cMapEmpty", func() interface{} { return map[string]int{} }, nil},
	{"cMap", func() interface{} { return map[string]int{"k": 1} }, nil},
	{"cStruct0", func() interface{} { return pt{} }, nil},
	{"cStruct", func() interface{} { return pt{1, "s"} }, nil},
	{"cU0", func() interface{} { return uint8(0) }, nil},
	{"cU1", func() interface{} { return uint(7) }, nil},
	{"", nil, rj.B(true)},
	{"", nil, rj.B(false)},
	{"", nil, rj.N(0)},
	{"", nil, rj.N(1)},
	{"", nil, rj.N(0.5)},
	{"", nil, rj.S("")},
	{"", nil, rj.S("a")},
	{"", nil, rj.Nil()},
	{"", nil, &rj.Dot{}}, // the context itself: inside a range it is the element, which may sit in an interface{} slot
}

func (c c05Cond) expr() rj.Expr {
	if c.lit != nil {
		return c.lit
	}
	return rj.V(c.name)
}

type c05Rangeable struct {
	name string
	mk   func() interface{}
	x    rj.Expr // expression instead of a variable (ints)
}

var c05Rangeables = []c05Rangeable{
	{"rS0", func() interface{} { return []string{} }, nil},
	{"rS1", func() interface{} { return []string{"a"} }, nil},
	{"rS3", func() interface{} { return []string{"a", "b", "c"} }, nil},
	{"rI2", func() interface{} { return []interface{}{1, "x"} }, nil},
	{"rIf", func() interface{} { return []interface{}{0, "", false, 2.5, "a"} }, nil}, // falsy values in interface{} slots
	{"rMf", func() interface{} { return map[string]interface{}{"k": 0} }, nil},
	{"rArr", func() interface{} { return [2]int{4, 5} }, nil},
	{"rPtr", func() interface{} { return &[]string{"p", "q"} }, nil},
	{"rM0", func() interface{} { return map[string]int{} }, nil},
	{"rM1", func() interface{} { return map[string]int{"k": 1} }, nil},
	{"rM2", func() interface{} { return map[string]int{"k": 1, "l": 2} }, nil},
	{"rMi", func() interface{} { return map[int]string{7: "seven"} }, nil},
	{"rC0", func() interface{} { return strChan() }, nil},
	{"rC2", func() interface{} { return strChan("x", "y") }, nil},
	{"", nil, rj.CallV("ints", rj.N(0), rj.N(3))},
	{"", nil, rj.CallV("ints", rj.N(2), rj.N(3))},
	{"", nil, rj.CallV("ints", rj.N(3), rj.N(3))}, // empty and inverted ranges are errors, not endless loops
	{"", nil, rj.CallV("ints", rj.N(3), rj.N(1))},
	{"rRi", func() interface{} { return newIdxRanger(true, "u", "w") }, nil},
	{"rRi0", func() interface{} { return newIdxRanger(true) }, nil},
	{"rRn", func() interface{} { return newIdxRanger(false, "u", "w") }, nil},
	{"rRn0", func() interface{} { return newIdxRanger(false) }, nil},
	{"rFeed", func() interface{} { return newChanFeed("hb", "a", "hb", "b", "hb") }, nil}, // custom Rangers of a natively rangeable kind
	{"rFeed0", func() interface{} { return newChanFeed("hb") }, nil},
	{"rCur", func() interface{} { return newSliceCursor(1, 2, 3) }, nil},
	{"rNil", func() interface{} { return nil }, nil},
	{"rInt", func() interface{} { return 5 }, nil},
	{"rNilSl", func() interface{} { return []int(nil) }, nil},
}

func (c c05Rangeable) expr() rj.Expr {
	if c.x != nil {
		return c.x
	}
	return rj.V(c.name)
}

func c05Mk(log *[]string) rj.Inputs {
	vars := map[string]interface{}{}
	for _, c := range c05Conds {
		if c.mk != nil {
			vars[c.name] = c.mk()
		}
	}
	for _, c := range c05Rangeables {
		if c.mk != nil {
			vars[c.name] = c.mk()
		}
	}
	return rj.Inputs{Vars: vars, Data: "D"}
}

// a unit wraps an inner statement list; names in scope are threaded through.
type c05Unit func(depth int, inner func(scope []string) []rj.Stmt, scope []string) []rj.Stmt

func c05Leaf(scope []string) []rj.Stmt {
	out := []rj.Stmt{rj.T("<"), rj.E(&rj.Dot{})}
	for _, n := range scope {
		out = append(out, rj.T(","), rj.E(rj.V(n)))
	}
	return append(out, rj.T(">"))
}

func c05IfUnits(conds []c05Cond) []c05Unit {
	var us []c05Unit
	for _, c := range conds {
		c := c
		for _, hasElse := range []bool{false, true} {
			for _, innerInElse := range []bool{false, true} {
				if innerInElse && !hasElse {
					continue
				}
				hasElse, innerInElse := hasElse, innerInElse
				us = append(us, func(d int, inner func([]string) []rj.Stmt, sc []string) []rj.Stmt {
					s := &rj.If{Cond: c.expr(), HasElse: hasElse}
					if innerInElse {
						s.Then = []rj.Stmt{rj.T("T")}
						s.Else = inner(sc)
					} else {
						s.Then = inner(sc)
						if hasElse {
							s.Else = []rj.Stmt{rj.T("E")}
						}
					}
					return []rj.Stmt{rj.T("("), s, rj.T(")")}
				})
			}
		}
	}
	return us
}

func c05RangeUnits(rs []c05Rangeable, forms []int) []c05Unit {
	var us []c05Unit
	for _, rg := range rs {
		rg := rg
		for _, form := range forms { // 0 none, 1 i, 2 i,v  (+3 = assignment instead of declaration)
			for _, hasElse := range []bool{false, true} {
				form, hasElse := form, hasElse
				us = append(us, func(d int, inner func([]string) []rj.Stmt, sc []string) []rj.Stmt {
					k, v := fmt.Sprintf("i%d", d), fmt.Sprintf("v%d", d)
					s := &rj.Range{X: rg.expr(), Decl: form < 3, HasElse: hasElse}
					in := append([]string(nil), sc...)
					var pre, post []rj.Stmt
					switch form % 3 {
					case 1:
						s.K = k
						in = append(in, k)
					case 2:
						s.K, s.V = k, v
						in = append(in, k, v)
					}
					if form >= 3 {
						pre = append(pre, rj.Let(k, rj.S("-")))
						if form%3 == 2 {
							pre = append(pre, rj.Let(v, rj.S("-")))
						}
						if rg.x == nil { // not for ints(): its loop values are examined under C07
							post = append(post, rj.T("|"), rj.E(rj.V(k)))
						}
					}
					s.Body = inner(in)
					if hasElse {
						s.Else = []rj.Stmt{rj.T("none"), rj.E(&rj.Dot{})}
					}
					out := append(pre, rj.T("["), s, rj.T("]"))
					return append(out, post...)
				})
			}
		}
	}
	return us
}

func c05Program(body []rj.Stmt) *rj.Program {
	return &rj.Program{Files: []*rj.File{{Name: "/t.jet", Body: body}}, Entry: "/t.jet", Mk: c05Mk}
}

var c05Nest = registerSpace(&e1Space{
	Prop: "C05", Name: "nest",
	N: func(th bool) int64 {
		u := int64(len(c05UnitsFor(false)))
		n := u + u*u
		if th {
			u3 := int64(len(c05UnitsFor(true)))
			n += u3 * u3 * u3
		}
		return n
	},
	Gen: func(i int64, th bool) *rj.Program {
		us := c05UnitsFor(false)
		u := int64(len(us))
		if i < u {
			return c05Program(us[i](0, c05Leaf, nil))
		}
		i -= u
		if i < u*u {
			a, b := us[i/u], us[i%u]
			return c05Program(a(0, func(sc []string) []rj.Stmt { return b(1, c05Leaf, sc) }, nil))
		}
		i -= u * u
		us3 := c05UnitsFor(true)
		u3 := int64(len(us3))
		a, b, c := us3[i/(u3*u3)], us3[(i/u3)%u3], us3[i%u3]
		return c05Program(a(0, func(sc []string) []rj.Stmt {
			return b(1, func(sc2 []string) []rj.Stmt { return c(2, c05Leaf, sc2) }, sc)
		}, nil))
	},
})

var c05UnitsCache [2][]c05Unit

func c05UnitsFor(small bool) []c05Unit {
	ix := 0
	if small {
		ix = 1
	}
	if c05UnitsCache[ix] != nil {
		return c05UnitsCache[ix]
	}
	var us []c05Unit
	if small {
		pickC := []int{0, 3, 7, 11, 15, 19}
		pickR := []int{0, 2, 8, 11, 12, 16}
		var cs []c05Cond
		for _, i := range pickC {
			cs = append(cs, c05Conds[i])
		}
		var rs []c05Rangeable
		for _, i := range pickR {
			rs = append(rs, c05Rangeables[i])
		}
		us = append(c05IfUnits(cs), c05RangeUnits(rs, []int{0, 1, 2})...)
	} else {
		us = append(c05IfUnits(c05Conds), c05RangeUnits(c05Rangeables, []int{0, 1, 2, 3, 4, 5})...)
	}
	c05UnitsCache[ix] = us
	return us
}

// if / else-if / else chains of every shape up to two else-if arms.
var c05Chain = registerSpace(&e1Space{
	Prop: "C05", Name: "ifchain",
	N: func(th bool) int64 {
		n := int64(len(c05Conds))
		return n*2 + n*n*2 + n*n*n*2
	},
	Gen: func(i int64, th bool) *rj.Program {
		n := int64(len(c05Conds))
		arms := 1
		switch {
		case i < n*2:
		case i < n*2+n*n*2:
			i -= n * 2
			arms = 2
		default:
			i -= n*2 + n*n*2
			arms = 3
		}
		hasElse := i%2 == 1
		i /= 2
		var chain *rj.If
		var last *rj.If
		for a := 0; a < arms; a++ {
			c := c05Conds[i%n]
			i /= n
			s := &rj.If{Cond: c.expr(), Then: []rj.Stmt{rj.T(fmt.Sprintf("B%d", a))}}
			if chain == nil {
				chain = s
			} else {
				last.HasElse, last.ElseIf, last.Else = true, true, []rj.Stmt{s}
			}
			last = s
		}
		if hasElse {
			last.HasElse, last.Else = true, []rj.Stmt{rj.T("ELSE")}
		}
		return c05Program([]rj.Stmt{rj.T("<"), chain, rj.T(">")})
	},
})

func C05(r *core.Run) map[string]interface{} {
	r.Rule = "if-chains of every shape (<=2 else-if arms) x all condition tuples over the value alphabet; every nesting of depth <=2 (thorough 3) of if/range units (condition value x else x position; rangeable x 6 variable forms x else); distinct = distinct reference outputs"
	runSpace(r, c05Chain)
	runSpace(r, c05Nest)
	return map[string]interface{}{
		"conditions": len(c05Conds), "rangeables": len(c05Rangeables), "units": len(c05UnitsFor(false)),
		"traces_validated_against_impl": r.Evals(),
	}
}

func init() {
	c05UnitsFor(false)
	c05UnitsFor(true)
	Registry["C05"] = C05
	Replayers["C05"] = replayE1
}
