package props

import (
	"fmt"
	"reflect"

	"verif/mc/internal/core"
	rj "verif/mc/internal/refjet"
)

var _ = core.Radix

// C07 — lexical scoping of := / =, resolution order, '.' restored after every body.

// program builder state: unique counters so that every written value is distinguishable.
type c07B struct {
	n     int
	files []*rj.File
	lib   []rj.Stmt // blocks collected for /lib.jet
}

func (b *c07B) val(p string) rj.Expr { b.n++; return rj.S(fmt.Sprintf("%s%d", p, b.n)) }

func c07Read(name string) []rj.Stmt {
	return []rj.Stmt{rj.T(name + "="), rj.E(&rj.Tern{C: &rj.IsSet{Args: []rj.Expr{rj.V(name)}}, A: rj.V(name), B: rj.S("unset")}), rj.T(";")}
}

func c07ReadDot() []rj.Stmt { return []rj.Stmt{rj.T(".="), rj.E(&rj.Dot{}), rj.T(";")} }

const c07NAtoms = 11

func (b *c07B) atom(k int) []rj.Stmt {
	switch k {
	case 0:
		return []rj.Stmt{rj.Let("x", b.val("v"))}
	case 1:
		return []rj.Stmt{rj.Set("x", b.val("w"))}
	case 2:
		return []rj.Stmt{rj.Let("y", b.val("v"))}
	case 3:
		return []rj.Stmt{&rj.Assign{Decl: true, Names: []string{"x", "y"}, Vals: []rj.Expr{b.val("a"), b.val("b")}}}
	case 4:
		return []rj.Stmt{&rj.Assign{Decl: true, Names: []string{"_"}, Vals: []rj.Expr{rj.CallV("f")}}}
	case 5:
		return []rj.Stmt{&rj.Assign{Decl: false, Names: []string{"_"}, Vals: []rj.Expr{rj.CallV("f")}}}
	case 6:
		return c07Read("x")
	case 7:
		return c07ReadDot()
	case 8:
		return c07Read("y")
	case 9:
		return []rj.Stmt{&rj.Assign{Decl: false, Names: []string{"y", "x"}, Vals: []rj.Expr{b.val("c"), b.val("d")}}}
	case 10: // return does not stop execution (but ends an enclosing range after the current iteration)
		return []rj.Stmt{&rj.Return{E: b.val("r")}}
	}
	panic("atom")
}

const c07NFrames = 24

// frame wraps inner in construct k.
func (b *c07B) frame(k int, inner []rj.Stmt) []rj.Stmt {
	b.n++
	id := b.n
	switch k {
	case 0:
		return []rj.Stmt{&rj.If{Cond: rj.V("cT"), Then: inner}}
	case 1:
		return []rj.Stmt{&rj.If{Init: rj.Let("x", b.val("L")), Cond: rj.V("cT"), Then: inner}}
	case 2:
		return []rj.Stmt{&rj.If{Init: rj.Let("x", b.val("L")), Cond: rj.V("cF"), Then: []rj.Stmt{rj.T("no")}, HasElse: true, Else: inner}}
	case 3:
		return []rj.Stmt{&rj.Range{X: rj.V("rS"), Body: inner}}
	case 4:
		return []rj.Stmt{&rj.Range{K: "i", Decl: true, X: rj.V("rS"), Body: inner}}
	case 5:
		return []rj.Stmt{&rj.Range{K: "x", V: "y", Decl: true, X: rj.V("rS"), Body: inner}}
	case 6:
		return []rj.Stmt{&rj.Range{K: "x", Decl: false, X: rj.V("rS"), Body: inner}}
	case 7:
		return []rj.Stmt{&rj.Range{K: "x", Decl: true, X: rj.V("rC"), Body: inner}}
	case 8:
		return []rj.Stmt{&rj.BlockDef{Name: fmt.Sprintf("b%d", id), Body: inner}}
	case 9:
		return []rj.Stmt{&rj.BlockDef{Name: fmt.Sprintf("b%d", id), Ctx: rj.S("C"), Body: inner}}
	case 10:
		return []rj.Stmt{&rj.BlockDef{Name: fmt.Sprintf("b%d", id), Params: []rj.Param{{Name: "x", Val: b.val("P")}}, Body: inner}}
	case 11, 12, 13:
		name := fmt.Sprintf("lb%d", id)
		b.lib = append(b.lib, &rj.BlockDef{Name: name, Params: []rj.Param{{Name: "y", Val: b.val("D")}}, Body: inner})
		y := &rj.Yield{Name: name}
		if k == 12 {
			y.Ctx = rj.S("C")
		}
		if k == 13 {
			y.Args = []rj.Param{{Name: "y", Val: b.val("A")}}
		}
		return []rj.Stmt{y}
	case 14:
		name := fmt.Sprintf("wr%d", id)
		b.lib = append(b.lib, &rj.BlockDef{Name: name, Body: []rj.Stmt{rj.T("<"), &rj.YieldContent{}, rj.T(">")}})
		return []rj.Stmt{&rj.Yield{Name: name, HasContent: true, Content: inner}}
	case 17: // the wrapper shows the content with a context of its own and reads '.' afterwards
		name := fmt.Sprintf("wc%d", id)
		b.lib = append(b.lib, &rj.BlockDef{Name: name, Body: []rj.Stmt{rj.T("<"), &rj.YieldContent{Ctx: rj.S("YC")}, rj.T("|w.="), rj.E(&rj.Dot{}), rj.T(">")}})
		return []rj.Stmt{&rj.Yield{Name: name, Ctx: rj.S("WC"), HasContent: true, Content: inner}}
	case 18: // ... inside a range of the wrapper
		name := fmt.Sprintf("wr%d", id)
		b.lib = append(b.lib, &rj.BlockDef{Name: name, Body: []rj.Stmt{&rj.Range{X: rj.V("rS"), Body: []rj.Stmt{rj.T("<"), &rj.YieldContent{Ctx: rj.S("YC")}, rj.T("|w.="), rj.E(&rj.Dot{}), rj.T(">")}}, rj.T("|after.="), rj.E(&rj.Dot{})}})
		return []rj.Stmt{&rj.Yield{Name: name, HasContent: true, Content: inner}}
	case 19: // the content is shown twice
		name := fmt.Sprintf("w2%d", id)
		b.lib = append(b.lib, &rj.BlockDef{Name: name, Body: []rj.Stmt{rj.T("<"), &rj.YieldContent{}, rj.T("|"), &rj.YieldContent{Ctx: rj.S("YC")}, rj.T("|w.="), rj.E(&rj.Dot{}), rj.T(">")}})
		return []rj.Stmt{&rj.Yield{Name: name, Ctx: rj.S("WC"), HasContent: true, Content: inner}}
	case 20: // a block that declares no parameters, yielded with a named argument
		name := fmt.Sprintf("np%d", id)
		b.lib = append(b.lib, &rj.BlockDef{Name: name, Body: inner})
		return []rj.Stmt{&rj.Yield{Name: name, Args: []rj.Param{{Name: "x", Val: b.val("A")}}}}
	case 21:
		return []rj.Stmt{&rj.Try{Body: inner}}
	case 22: // the catch body runs with the scope and context from before the try, not with what the abandoned body had pushed
		return []rj.Stmt{&rj.Try{Body: []rj.Stmt{&rj.Range{K: "x", Decl: true, X: rj.V("rS"), Body: []rj.Stmt{rj.Let("y", b.val("T")), rj.E(rj.V("undefinedName"))}}}, HasCatch: true, Catch: inner}}
	case 23:
		return []rj.Stmt{&rj.Try{Body: []rj.Stmt{&rj.If{Init: rj.Let("x", b.val("L")), Cond: rj.V("cT"), Then: []rj.Stmt{&rj.Range{X: rj.V("rS"), Body: []rj.Stmt{rj.E(rj.V("undefinedName"))}}}}}, HasCatch: true, CatchVar: "err", Catch: inner}}
	case 15, 16:
		fn := fmt.Sprintf("/inc%d.jet", id)
		b.files = append(b.files, &rj.File{Name: fn, Body: inner})
		inc := &rj.Include{Name: rj.S(fn)}
		if k == 16 {
			inc.Ctx = rj.S("C")
		}
		return []rj.Stmt{inc}
	}
	panic("frame")
}

func c07Mk(cfg int) func(log *[]string) rj.Inputs {
	return func(log *[]string) rj.Inputs {
		vars := map[string]interface{}{
			"cT": true, "cF": false,
			"rS": []string{"e1", "e2"},
			"rC": strChan("c1", "c2"),
			"f":  func() string { *log = append(*log, "f"); return "r" },
		}
		in := rj.Inputs{Vars: vars, Data: "D", Globals: map[string]interface{}{}}
		switch cfg {
		case 1:
			vars["x"] = "VM"
		case 2:
			in.Globals["x"] = "GL"
		case 3:
			vars["x"] = "VM"
			in.Globals["x"] = "GL"
			in.Globals["y"] = "GLy"
		}
		return in
	}
}

func (b *c07B) program(body []rj.Stmt, cfg int) *rj.Program {
	main := &rj.File{Name: "/t.jet", Body: body}
	files := append([]*rj.File{main}, b.files...)
	if len(b.lib) > 0 {
		main.Imports = []string{"/lib.jet"}
		files = append(files, &rj.File{Name: "/lib.jet", Body: b.lib})
	}
	return &rj.Program{Files: files, Entry: "/t.jet", Mk: c07Mk(cfg)}
}

func c07Seq(b *c07B, code int64, n int) []rj.Stmt {
	var out []rj.Stmt
	for j := 0; j < n; j++ {
		out = append(out, b.atom(int(code%c07NAtoms))...)
		code /= c07NAtoms
	}
	return out
}

func c07Post() []rj.Stmt {
	out := append([]rj.Stmt{rj.T("|")}, c07Read("x")...)
	out = append(out, c07Read("y")...)
	return append(out, c07ReadDot()...)
}

func pow(b, e int64) int64 {
	r := int64(1)
	for ; e > 0; e-- {
		r *= b
	}
	return r
}

// space "flat": [pre atom?] frame(seq of <=3 atoms) post-reads, 4 variable origins
var c07Flat = registerSpace(&e1Space{
	Prop: "C07", Name: "flat",
	N: func(th bool) int64 {
		seqs := int64(1 + c07NAtoms + c07NAtoms*c07NAtoms + c07NAtoms*c07NAtoms*c07NAtoms)
		return seqs * (c07NFrames + 1) * (c07NAtoms + 1) * 4
	},
	Gen: func(i int64, th bool) *rj.Program {
		seqs := int64(1 + c07NAtoms + c07NAtoms*c07NAtoms + c07NAtoms*c07NAtoms*c07NAtoms)
		si := i % seqs
		i /= seqs
		fr := int(i % (c07NFrames + 1))
		i /= c07NFrames + 1
		pre := int(i % (c07NAtoms + 1))
		cfg := int(i / (c07NAtoms + 1))
		n := 0
		for n = 0; n <= 3; n++ {
			if si < pow(c07NAtoms, int64(n)) {
				break
			}
			si -= pow(c07NAtoms, int64(n))
		}
		if n == 3 && cfg >= 2 && !th {
			return nil // quick: sequences of three under the two most common origins only
		}
		b := &c07B{}
		var body []rj.Stmt
		if pre > 0 {
			body = append(body, b.atom(pre-1)...)
		}
		inner := c07Seq(b, si, n)
		if fr == c07NFrames {
			body = append(body, inner...) // no frame: the sequence at top level
		} else {
			body = append(body, b.frame(fr, inner)...)
		}
		body = append(body, c07Post()...)
		return b.program(body, cfg)
	},
	Extra:      c07NoDataAfter,
	NonTrivial: func(p *rj.Program, ref rj.Result) bool { return true },
})

// space "nest": pre frame1( atom frame2( seq<=2 ) reads ) post, 2 variable origins
var c07Nest = registerSpace(&e1Space{
	Prop: "C07", Name: "nest",
	N: func(th bool) int64 {
		seqs := int64(1 + c07NAtoms + c07NAtoms*c07NAtoms)
		n := seqs * c07NFrames * c07NFrames * 3 * 2
		if th {
			n += int64(1+c07NAtoms) * c07NFrames * c07NFrames * c07NFrames * 2
		}
		return n
	},
	Gen: func(i int64, th bool) *rj.Program {
		seqs := int64(1 + c07NAtoms + c07NAtoms*c07NAtoms)
		base := seqs * c07NFrames * c07NFrames * 3 * 2
		b := &c07B{}
		if i >= base {
			i -= base
			si := i % (1 + c07NAtoms)
			i /= 1 + c07NAtoms
			f1, f2, f3 := int(i%c07NFrames), int((i/c07NFrames)%c07NFrames), int((i/(c07NFrames*c07NFrames))%c07NFrames)
			cfg := int(i / (c07NFrames * c07NFrames * c07NFrames))
			var in []rj.Stmt
			if si > 0 {
				in = b.atom(int(si - 1))
			}
			in = append(in, c07Read("x")...)
			in = append(in, c07ReadDot()...)
			l3 := append(b.frame(f3, in), c07Read("x")...)
			l2 := append(append(b.atom(0), b.frame(f2, l3)...), c07ReadDot()...)
			body := append(b.frame(f1, l2), c07Post()...)
			return b.program(body, cfg*1)
		}
		si := i % seqs
		i /= seqs
		f1 := int(i % c07NFrames)
		i /= c07NFrames
		f2 := int(i % c07NFrames)
		i /= c07NFrames
		mid := int(i % 3)
		cfg := int(i / 3)
		n := 0
		for n = 0; n <= 2; n++ {
			if si < pow(c07NAtoms, int64(n)) {
				break
			}
			si -= pow(c07NAtoms, int64(n))
		}
		inner := c07Seq(b, si, n)
		var l1 []rj.Stmt
		switch mid {
		case 1:
			l1 = append(l1, b.atom(0)...)
		case 2:
			l1 = append(l1, b.atom(2)...)
		}
		l1 = append(l1, b.frame(f2, inner)...)
		l1 = append(l1, c07Read("x")...)
		l1 = append(l1, c07ReadDot()...)
		body := append(b.frame(f1, l1), c07Post()...)
		return b.program(body, cfg)
	},
	Extra: c07VarMapOracle,
})

// space "capture": values taken from loop variables must keep the value they were given.
var c07Capture = registerSpace(&e1Space{
	Prop: "C07", Name: "capture",
	N: func(th bool) int64 { return int64(len(c05Rangeables)) * 3 * 3 },
	Gen: func(i int64, th bool) *rj.Program {
		rg := c05Rangeables[i%int64(len(c05Rangeables))]
		i /= int64(len(c05Rangeables))
		form := int(i % 3) // which loop variable is captured: key, value, or the context
		when := int(i / 3) // 0 every iteration, 1 first iteration only, 2 declared inside and copied out
		k, v := "k", "v"
		var src rj.Expr
		s := &rj.Range{X: rg.expr(), Decl: true}
		switch form {
		case 0:
			s.K = k
			src = rj.V(k)
		case 1:
			s.K, s.V = k, v
			src = rj.V(v)
		case 2:
			src = &rj.Dot{}
		}
		switch when {
		case 0:
			s.Body = []rj.Stmt{rj.Set("c", src)}
		case 1:
			s.Body = []rj.Stmt{&rj.If{Cond: &rj.Bin{Op: "==", L: rj.V("n"), R: rj.N(0)}, Then: []rj.Stmt{rj.Set("c", src)}}, rj.Set("n", &rj.Bin{Op: "+", L: rj.V("n"), R: rj.N(1)})}
		case 2:
			s.Body = []rj.Stmt{rj.Let("t", src), rj.Set("c", rj.V("t"))}
		}
		body := []rj.Stmt{rj.Let("c", rj.S("none")), rj.Let("n", rj.N(0)), s, rj.T("c="), rj.E(rj.V("c"))}
		return &rj.Program{Files: []*rj.File{{Name: "/t.jet", Body: body}}, Entry: "/t.jet", Mk: c05Mk}
	},
	Classify: func(p *rj.Program, src map[string]string, ref rj.Result, got rj.ImplResult) string {
		if containsStr(src["/t.jet"], "ints(") && !got.Failed() {
			return "ints-ranger-loop-values-alias-its-counters"
		}
		return ""
	},
})

// space "lookup": v, ok := m[k] / v, ok = m[k] declare / rebind v also when the key is absent
var c07Lookup = registerSpace(&e1Space{
	Prop: "C07", Name: "lookup",
	N:    func(th bool) int64 { return 4 * 3 * (c07NFrames + 1) * 3 * 2 * 3 },
	Gen: func(i int64, th bool) *rj.Program {
		ix := core.Radix(i, 4, 3, c07NFrames+1, 3, 2, 3)
		b := &c07B{}
		key := []string{"k", "absent", "absent", "k"}[ix[0]]
		decl := ix[0] < 2
		names := [][]string{{"x", "ok"}, {"_", "ok"}, {"x", "_"}}[ix[5]] // with either side discarded
		look := &rj.Assign{Decl: decl, Names: names, Vals: []rj.Expr{&rj.Index{X: rj.V("m"), I: rj.S(key)}}}
		inner := append([]rj.Stmt{look}, c07Read("ok")...)
		inner = append(inner, c07Read("x")...)
		switch ix[1] {
		case 1:
			inner = append(inner, rj.Set("x", b.val("w")))
			inner = append(inner, c07Read("x")...)
		case 2:
			inner = append(inner, &rj.If{Cond: rj.V("cT"), Then: append([]rj.Stmt{rj.Set("x", b.val("w"))}, c07Read("x")...)})
			inner = append(inner, c07Read("x")...)
		}
		var body []rj.Stmt
		switch ix[3] {
		case 1:
			body = append(body, rj.Let("x", rj.S("outer")), rj.Let("ok", rj.S("-")))
		case 2:
			body = append(body, rj.Let("ok", rj.S("-")))
		}
		if ix[2] == c07NFrames {
			body = append(body, inner...)
		} else {
			body = append(body, b.frame(ix[2], inner)...)
		}
		body = append(body, c07Post()...)
		p := b.program(body, ix[4])
		mk := p.Mk
		p.Mk = func(log *[]string) rj.Inputs {
			in := mk(log)
			in.Vars["m"] = map[string]string{"k": "mk"}
			return in
		}
		return p
	},
	Extra: c07VarMapOracle,
})

func containsStr(s, sub string) bool {
	for i := 0; i+len(sub) <= len(s); i++ {
		if s[i:i+len(sub)] == sub {
			return true
		}
	}
	return false
}

// c07NoDataAfter: the same template executed once more on the same Set without data: '.' is absent again (the
// context of the execution before must not show through), everything else as the reference says.
func c07NoDataAfter(p *rj.Program, ref rj.Result, got rj.ImplResult) string {
	if why := c07VarMapOracle(p, ref, got); why != "" || got.AgainWith == nil || ref.Err != nil {
		return why
	}
	q := *p
	mk := p.Mk
	q.Mk = func(log *[]string) rj.Inputs {
		in := mk(log)
		in.Data = nil
		return in
	}
	r2 := rj.Eval(&q)
	if r2.Unspec != "" {
		return ""
	}
	if why := rj.Compare(r2, got.AgainWith(p.Entry, q.Mk)); why != "" {
		return "executed once more, now without data: " + why
	}
	return ""
}

// c07VarMapOracle: after Execute the caller's VarMap has the reference's keys and values.
func c07VarMapOracle(p *rj.Program, ref rj.Result, got rj.ImplResult) string {
	if ref.Err != nil {
		return ""
	}
	for k, want := range ref.Vars {
		rv, ok := got.Vars[k]
		if !ok {
			return fmt.Sprintf("VarMap lost key %q", k)
		}
		if s, isStr := want.(string); isStr {
			if !rv.IsValid() || rv.Kind() != reflect.String || rv.String() != s {
				return fmt.Sprintf("VarMap[%q] = %v after Execute, reference %q", k, rv, s)
			}
		}
	}
	for k := range got.Vars {
		if _, ok := ref.Vars[k]; !ok {
			return fmt.Sprintf("Execute added key %q to the caller's VarMap", k)
		}
	}
	return ""
}

func C07(r *core.Run) map[string]interface{} {
	r.Rule = "statement sequences (<=3 over 11 atoms: := = multi-assign discard reads return) inside each of 24 frames (if, if-let, range forms, try, catch bodies of tries abandoned inside a range / an if-let, block/yield/include with and without context and parameters, yield-with-content), nested to depth 2 (thorough 3), under 4 variable origins (local only, VarMap, global, both); loop-variable capture over every ranger kind; distinct = distinct reference outputs"
	runSpace(r, c07Flat)
	runSpace(r, c07Nest)
	runSpace(r, c07Capture)
	runSpace(r, c07Lookup)
	return map[string]interface{}{"atoms": c07NAtoms, "frames": c07NFrames, "traces_validated_against_impl": r.Evals()}
}

func init() {
	Registry["C07"] = C07
	Replayers["C07"] = replayE1
}
