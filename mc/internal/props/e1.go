package props

import (
	"encoding/json"
	"fmt"
	"reflect"
	"sync"

	"github.com/CloudyKit/jet/v6"

	"verif/mc/internal/core"
	rj "verif/mc/internal/refjet"
)

// e1Space is one enumerated program space of a property.
type e1Space struct {
	Prop string
	Name string
	N    func(thorough bool) int64
	// Gen builds program number i (nil = index not used).
	Gen func(i int64, thorough bool) *rj.Program
	// Printer returns the surface style (nil = default).
	Printer func(i int64) *rj.Printer
	// Opts returns extra Set options for case i.
	Opts func(i int64) []jet.Option
	// Classify maps a disagreement to a narrow known-finding signature ("" = none).
	Classify func(p *rj.Program, src map[string]string, ref rj.Result, got rj.ImplResult) string
	// NonTrivial says whether the case exercises the construct under test.
	NonTrivial func(p *rj.Program, ref rj.Result) bool
	// Quirks lists deviant behaviours (known findings) the reference can emulate; a
	// disagreement that disappears under exactly one of them gets that signature.
	Quirks []string
	// QuirkExtra replaces Extra while a quirk is evaluated (nil = use Extra).
	QuirkExtra func(p *rj.Program, ref rj.Result, got rj.ImplResult) string
	// ExtraP is like Extra but also receives the printer (node positions).
	ExtraP func(p *rj.Program, pr *rj.Printer, ref rj.Result, got rj.ImplResult) string
	// Extra is an additional oracle run on conforming cases; "" = ok.
	Extra func(p *rj.Program, ref rj.Result, got rj.ImplResult) string
}

var (
	e1Spaces   = map[string]*e1Space{}
	e1SpacesMu sync.Mutex
)

func registerSpace(s *e1Space) *e1Space {
	e1SpacesMu.Lock()
	e1Spaces[s.Prop+"/"+s.Name] = s
	e1SpacesMu.Unlock()
	return s
}

type e1Case struct {
	Space    string                 `json:"space"`
	Index    int64                  `json:"index"`
	Thorough bool                   `json:"thorough"`
	Detail   map[string]interface{} `json:"detail,omitempty"`
}

// e1One runs case i of space s; it returns the disagreement ("" = conforms or unspecified).
func e1One(s *e1Space, i int64, thorough bool) (p *rj.Program, src map[string]string, ref rj.Result, got rj.ImplResult, why string) {
	p = s.Gen(i, thorough)
	if p == nil {
		return nil, nil, ref, got, ""
	}
	var pr *rj.Printer
	if s.Printer != nil {
		pr = s.Printer(i)
	}
	if pr == nil {
		pr = rj.NewPrinter()
	}
	src = rj.Render(p, pr)
	ref = rj.Eval(p)
	if ref.Unspec != "" {
		return
	}
	var opts []jet.Option
	if s.Opts != nil {
		opts = s.Opts(i)
	}
	got = rj.RunImpl(p, src, opts...)
	why = rj.Compare(ref, got)
	if why == "" && s.Extra != nil {
		why = s.Extra(p, ref, got)
	}
	if why == "" && s.ExtraP != nil {
		why = s.ExtraP(p, pr, ref, got)
	}
	return
}

// runSpace enumerates the whole space.
func runSpace(r *core.Run, s *e1Space) {
	n := s.N(r.Thorough())
	th := r.Thorough()
	r.HangDescribe = func(i int64) (string, interface{}) {
		src := map[string]string{}
		entry := ""
		func() {
			defer func() { recover() }()
			if p := s.Gen(i, th); p != nil {
				pr := rj.NewPrinter()
				if s.Printer != nil {
					pr = s.Printer(i)
				}
				src, entry = rj.Render(p, pr), p.Entry
			}
		}()
		return fmt.Sprintf("[%s #%d] %s", s.Name, i, p1(src, entry)), e1Case{Space: s.Prop + "/" + s.Name, Index: i, Thorough: th, Detail: map[string]interface{}{"files": src, "entry": entry}}
	}
	defer func() { r.HangDescribe = nil }()
	r.ParallelFor(n, func(i int64) {
		p, src, ref, got, why := e1One(s, i, th)
		if p == nil {
			return
		}
		if ref.Unspec != "" {
			r.Skip(ref.Unspec)
			return
		}
		r.Eval()
		if why != "" {
			// re-run once: a disagreement must be reproducible before it is believed
			_, _, ref2, got2, why2 := e1One(s, i, th)
			if why2 == "" || ref2.Out != ref.Out || got2.Out != got.Out {
				r.Violate(core.Violation{Sig: "nondeterministic-" + s.Name, What: "case does not reproduce: " + why, Case: e1Case{Space: s.Prop + "/" + s.Name, Index: i, Thorough: th, Detail: rj.Describe(p, src, ref, got)}})
				return
			}
			sig := ""
			if s.Classify != nil {
				sig = s.Classify(p, src, ref, got)
			}
			if sig == "" {
				qx := s.Extra
				if s.QuirkExtra != nil {
					qx = s.QuirkExtra
				}
				for _, q := range s.Quirks {
					p.Quirks = map[string]bool{q: true}
					qref := rj.Eval(p)
					p.Quirks = nil
					// the deviation is explained by the quirk if, under it, the reference agrees with the
					// implementation or reaches a state the property does not define (e.g. a zero divisor)
					if qref.Unspec != "" || (rj.Compare(qref, got) == "" && (qx == nil || qx(p, qref, got) == "")) {
						sig = q
						break
					}
				}
			}
			r.Violate(core.Violation{Sig: sig, What: fmt.Sprintf("[%s #%d] %s :: %s", s.Name, i, p1(src, p.Entry), why),
				Case: e1Case{Space: s.Prop + "/" + s.Name, Index: i, Thorough: th, Detail: rj.Describe(p, src, ref, got)}})
			return
		}
		if s.NonTrivial == nil || s.NonTrivial(p, ref) {
			k := ref.Out
			if ref.Err != nil {
				k += "\x00ERR:" + ref.Err.Class
			}
			r.Distinct(s.Name + "\x00" + k)
		}
		if r.WantSample() && i%(n/7+1) == 0 {
			r.Sample(map[string]interface{}{"space": s.Name, "index": i, "case": rj.Describe(p, src, ref, got)})
		}
	})
}

// e1EveryEntry is an Extra oracle: after the entry, every other file of the program is executed as an entry of
// its own on the same Set (then the entry once more), each against the reference's answer for that entry. What
// loading one template does to the templates it pulls in (their block tables, the cache) shows up here.
func e1EveryEntry(p *rj.Program, ref rj.Result, got rj.ImplResult) string {
	if got.Again == nil {
		return ""
	}
	entries := []string{}
	for _, f := range p.Files {
		if f.Name != p.Entry && !f.Broken {
			entries = append(entries, f.Name)
		}
	}
	entries = append(entries, p.Entry)
	for _, e := range entries {
		q := *p
		q.Entry = e
		r2 := rj.Eval(&q)
		if r2.Unspec != "" {
			continue
		}
		if why := rj.Compare(r2, got.Again(e)); why != "" {
			return fmt.Sprintf("after executing %s, on the same Set, executing %s: %s", p.Entry, e, why)
		}
	}
	return ""
}

func p1(src map[string]string, entry string) string {
	s := src[entry]
	if len(s) > 160 {
		s = s[:160] + "..."
	}
	return s
}

func replayE1(raw json.RawMessage) string {
	var c e1Case
	if err := json.Unmarshal(raw, &c); err != nil {
		return err.Error()
	}
	s, ok := e1Spaces[c.Space]
	if !ok {
		return "unknown space " + c.Space
	}
	p, _, ref, _, why := e1One(s, c.Index, c.Thorough)
	if p == nil || ref.Unspec != "" {
		return ""
	}
	return why
}

// ---------- shared data universe ----------

// idxRanger is a custom Ranger that provides an index.
type idxRanger struct {
	keys []interface{}
	vals []interface{}
	i    int
	idx  bool
}

func (r *idxRanger) Range() (reflect.Value, reflect.Value, bool) {
	if r.i >= len(r.vals) {
		return reflect.Value{}, reflect.Value{}, true
	}
	r.i++
	var k reflect.Value
	if r.idx {
		k = reflect.ValueOf(r.keys[r.i-1])
	}
	return k, reflect.ValueOf(r.vals[r.i-1]), false
}
func (r *idxRanger) ProvidesIndex() bool { return r.idx }
// RefNext / RefHasIndex let the reference pull items one at a time, consuming
// the (stateful, single-use) ranger exactly as iterating it through jet does.
func (r *idxRanger) RefHasIndex() bool { return r.idx }
func (r *idxRanger) RefNext() (interface{}, interface{}, bool) {
	if r.i >= len(r.vals) {
		return nil, nil, false
	}
	r.i++
	var k interface{}
	if r.idx {
		k = r.keys[r.i-1]
	}
	return k, r.vals[r.i-1], true
}

// chanFeed is a custom Ranger whose underlying kind is one jet also ranges natively (a channel): its Range()
// must win. It hands out the messages that are not heartbeats, without index.
type chanFeed chan string

func (c chanFeed) Range() (reflect.Value, reflect.Value, bool) {
	for m := range c {
		if m != "hb" {
			return reflect.Value{}, reflect.ValueOf("[" + m + "]"), false
		}
	}
	return reflect.Value{}, reflect.Value{}, true
}
func (c chanFeed) ProvidesIndex() bool { return false }
func (c chanFeed) RefHasIndex() bool   { return false }
func (c chanFeed) RefNext() (interface{}, interface{}, bool) {
	for m := range c {
		if m != "hb" {
			return nil, "[" + m + "]", true
		}
	}
	return nil, nil, false
}

func newChanFeed(msgs ...string) chanFeed {
	c := make(chanFeed, len(msgs))
	for _, m := range msgs {
		c <- m
	}
	close(c)
	return c
}

// sliceCursor is a custom Ranger of slice kind: element 0 is its cursor, the others are handed out in reverse
// order with their distance from the end as index.
type sliceCursor []*int

func (s sliceCursor) Range() (reflect.Value, reflect.Value, bool) {
	k, v, ok := s.RefNext()
	if !ok {
		return reflect.Value{}, reflect.Value{}, true
	}
	return reflect.ValueOf(k), reflect.ValueOf(v), false
}
func (s sliceCursor) ProvidesIndex() bool { return true }
func (s sliceCursor) RefHasIndex() bool   { return true }
func (s sliceCursor) RefNext() (interface{}, interface{}, bool) {
	i := len(s) - 1 - *s[0]
	if i < 1 {
		return nil, nil, false
	}
	*s[0]++
	return len(s) - 1 - i, *s[i] * 10, true
}

func newSliceCursor(vals ...int) sliceCursor {
	s := sliceCursor{new(int)}
	for i := range vals {
		s = append(s, &vals[i])
	}
	return s
}

func newIdxRanger(idx bool, vals ...interface{}) *idxRanger {
	r := &idxRanger{vals: vals, idx: idx}
	for i := range vals {
		r.keys = append(r.keys, fmt.Sprintf("k%d", i))
	}
	return r
}

func strChan(items ...string) chan string {
	c := make(chan string, len(items)+1)
	for _, s := range items {
		c <- s
	}
	close(c)
	return c
}

type pt struct {
	X int
	S string
}
