package props

import (
	"embed"
	"encoding/json"
	"fmt"
	"io"
	"net/http"
	"os"
	"path"
	"path/filepath"
	"sort"
	"strings"

	"github.com/CloudyKit/jet/v6"
	"github.com/CloudyKit/jet/v6/loaders/embedfs"
	"github.com/CloudyKit/jet/v6/loaders/httpfs"
	"github.com/CloudyKit/jet/v6/loaders/multi"

	"verif/mc/internal/core"
)

// C19 — bundled loaders honour the Loader contract and their path semantics.

//go:embed embedtree
var c19Embed embed.FS

type c19Case struct {
	Loader  string   `json:"loader"`
	History []string `json:"history"`
	Query   string   `json:"query"`
	Want    string   `json:"want"`
	Got     string   `json:"got"`
}

func c19Query(l jet.Loader, p string) string {
	ex := l.Exists(p)
	rc, err := l.Open(p)
	content, rerr := "", error(nil)
	if err == nil {
		var b []byte
		b, rerr = io.ReadAll(rc)
		rc.Close()
		content = string(b)
	}
	if !ex {
		return "absent"
	}
	if err != nil {
		return "exists-but-open-fails:" + err.Error()
	}
	if rerr != nil {
		return "exists-but-read-fails:" + rerr.Error()
	}
	return "file:" + content
}

// ---------- InMemLoader ----------

var c19Canon = []string{"/a.jet", "/d/a.jet", "/d/b.jet"}

func c19Spellings(c string) []string {
	rel := strings.TrimPrefix(c, "/")
	return []string{c, rel, "./" + rel, "/" + c, "/x/.." + c, c + "/", "/." + c, "../" + rel}
}

type c19MemOp struct {
	Kind, Path, Content string
}

func (o c19MemOp) String() string { return o.Kind + "(" + o.Path + "," + o.Content + ")" }

func c19MemOps() []c19MemOp {
	var ops []c19MemOp
	for _, c := range c19Canon {
		for _, sp := range c19Spellings(c) {
			ops = append(ops, c19MemOp{"Set", sp, "c1"}, c19MemOp{"Set", sp, "c2"}, c19MemOp{"Delete", sp, ""})
		}
	}
	return ops
}

func c19MemReplay(hist []c19MemOp) (state string, bad *c19Case) {
	l := jet.NewInMemLoader()
	ref := map[string]string{}
	var hs []string
	for _, op := range hist {
		hs = append(hs, op.String())
		key := path.Join("/", op.Path)
		switch op.Kind {
		case "Set":
			l.Set(op.Path, op.Content)
			ref[key] = op.Content
		case "Delete":
			l.Delete(op.Path)
			delete(ref, key)
		}
		// after every operation: every spelling of every canonical path answers like the reference map
		for _, c := range c19Canon {
			want := "absent"
			if v, ok := ref[c]; ok {
				want = "file:" + v
			}
			for _, sp := range c19Spellings(c) {
				if got := c19Query(l, sp); got != want {
					return "", &c19Case{Loader: "InMemLoader", History: hs, Query: sp, Want: want, Got: got}
				}
			}
		}
	}
	var ks []string
	for k, v := range ref {
		ks = append(ks, k+"="+v)
	}
	sort.Strings(ks)
	return strings.Join(ks, ","), nil
}

// ---------- file-system loaders ----------

// a tree assigns each of /a, /b one of: absent, file, dir{children a,b: absent|file|dir}
type c19Tree map[string]string // clean path -> "file:<content>" | "dir"

func c19Trees() []c19Tree {
	var tops [][2]string // description of one top-level node: kind + children code
	node := func(name string, code int) c19Tree {
		t := c19Tree{}
		switch {
		case code == 0:
		case code == 1:
			t["/"+name] = "file:F(/" + name + ")"
		default:
			t["/"+name] = "dir"
			c := code - 2
			for i, ch := range []string{"a", "b"} {
				k := c % 3
				if i == 1 {
					k = c / 3
				}
				p := "/" + name + "/" + ch
				switch k {
				case 1:
					t[p] = "file:F(" + p + ")"
				case 2:
					t[p] = "dir"
				}
			}
		}
		return t
	}
	_ = tops
	var out []c19Tree
	for ca := 0; ca < 11; ca++ {
		for cb := 0; cb < 11; cb++ {
			t := c19Tree{}
			for k, v := range node("a", ca) {
				t[k] = v
			}
			for k, v := range node("b", cb) {
				t[k] = v
			}
			out = append(out, t)
		}
	}
	return out
}

func c19Materialise(root string, t c19Tree) error {
	var paths []string
	for p := range t {
		paths = append(paths, p)
	}
	sort.Strings(paths)
	for _, p := range paths {
		full := filepath.Join(root, filepath.FromSlash(p))
		if t[p] == "dir" {
			if err := os.MkdirAll(full, 0o755); err != nil {
				return err
			}
			continue
		}
		if err := os.MkdirAll(filepath.Dir(full), 0o755); err != nil {
			return err
		}
		if err := os.WriteFile(full, []byte(strings.TrimPrefix(t[p], "file:")), 0o644); err != nil {
			return err
		}
	}
	return nil
}

func c19Paths() []string {
	out := []string{"/"}
	var rec func(p string, d int)
	rec = func(p string, d int) {
		if d > 0 {
			out = append(out, p)
		}
		if d == 3 {
			return
		}
		for _, s := range []string{"a", "b"} {
			rec(p+"/"+s, d+1)
		}
	}
	rec("", 0)
	return out
}

func c19WantFS(t c19Tree, p string) string {
	if v, ok := t[p]; ok && strings.HasPrefix(v, "file:") {
		return v
	}
	return "absent"
}

func c19FSLoaders(root string) map[string]jet.Loader {
	h, _ := httpfs.NewLoader(http.Dir(root))
	return map[string]jet.Loader{"OSFileSystemLoader": jet.NewOSFileSystemLoader(root), "httpfs": h}
}

// edit operations for the history space of the OS / http loaders
type c19Edit struct{ Kind, Path string }

func (e c19Edit) String() string { return e.Kind + "(" + e.Path + ")" }

var c19Edits = []c19Edit{
	{"file1", "/a"}, {"file2", "/a"}, {"dir", "/a"}, {"rm", "/a"},
	{"file1", "/a/b"}, {"dir", "/a/b"}, {"rm", "/a/b"},
	{"file1", "/b"}, {"rm", "/b"},
}

func c19Apply(root string, t c19Tree, e c19Edit) {
	full := filepath.Join(root, filepath.FromSlash(e.Path))
	rmTree := func(p string) {
		os.RemoveAll(filepath.Join(root, filepath.FromSlash(p)))
		for k := range t {
			if k == p || strings.HasPrefix(k, p+"/") {
				delete(t, k)
			}
		}
	}
	parentIsDir := func() bool {
		par := path.Dir(e.Path)
		return par == "/" || t[par] == "dir"
	}
	switch e.Kind {
	case "rm":
		rmTree(e.Path)
	case "dir":
		if !parentIsDir() {
			return
		}
		rmTree(e.Path)
		os.MkdirAll(full, 0o755)
		t[e.Path] = "dir"
	case "file1", "file2":
		if !parentIsDir() {
			return
		}
		rmTree(e.Path)
		c := "E" + e.Kind[4:] + "(" + e.Path + ")"
		os.WriteFile(full, []byte(c), 0o644)
		t[e.Path] = "file:" + c
	}
}

// ---------- the check ----------

func C19(r *core.Run) map[string]interface{} {
	r.Rule = "InMemLoader: breadth-first search over reference states (3 canonical paths x {absent,c1,c2}) with Set/Delete in 8 spellings each, plus every history of <=2 (thorough 3) operations, every spelling of every path queried after every operation; OS and http loaders: all 121 trees over {a,b} to depth 2 (absent/file/dir at every node) x every clean absolute path of <=3 segments, 44 trees with a symbolic link (to a file, a directory, a nested entry, nothing; consistency only: Exists => Open yields the bytes of the file the path leads to), plus every edit history of <=3 (thorough 4) operations (create, replace file by directory and back, remove); embed loader: one embedded tree, every clean path; multi loader: all 729 stacks of 3 members (each of 2 paths absent/file/directory per member) x 2 member kinds x 5 ways of assembling the stack (incl. a caller that re-adds the slice it constructed the loader from), plus every history of <=5 (thorough 6) operations over {member Set/Delete, AddLoaders, ClearLoaders, Exists, Open}; oracle: Exists iff regular file, Exists => Open yields exactly the stored bytes, first member that has the path answers"
	var states, transitions int64
	tmp, err := os.MkdirTemp("", "c19-")
	if err != nil {
		panic(err)
	}
	defer os.RemoveAll(tmp)
	viol := func(c *c19Case) {
		r.Violate(core.Violation{Sig: c19Classify(c), What: fmt.Sprintf("%s after %v: %s answers %q, reference %q", c.Loader, c.History, c.Query, c.Got, c.Want), Case: c})
	}
	// --- InMemLoader: BFS over model states
	ops := c19MemOps()
	seen := map[string]bool{"": true}
	frontier := [][]c19MemOp{nil}
	for len(frontier) > 0 {
		var next [][]c19MemOp
		for _, h := range frontier {
			for _, op := range ops {
				nh := append(append([]c19MemOp{}, h...), op)
				st, bad := c19MemReplay(nh)
				r.Eval()
				transitions++
				if bad != nil {
					viol(bad)
					continue
				}
				if !seen[st] {
					seen[st] = true
					next = append(next, nh)
				}
			}
		}
		frontier = next
	}
	states += int64(len(seen))
	for k := range seen {
		r.Distinct("mem:" + k)
	}
	depth := 2
	if r.Thorough() {
		depth = 3
	}
	total := int64(0)
	for d := 1; d <= depth; d++ {
		total += pow(int64(len(ops)), int64(d))
	}
	r.ParallelFor(total, func(i int64) {
		d := 1
		for ; d <= depth; d++ {
			n := pow(int64(len(ops)), int64(d))
			if i < n {
				break
			}
			i -= n
		}
		h := make([]c19MemOp, d)
		for j := range h {
			h[j] = ops[i%int64(len(ops))]
			i /= int64(len(ops))
		}
		_, bad := c19MemReplay(h)
		r.Eval()
		if bad != nil {
			viol(bad)
		}
	})
	transitions += total
	r.Sample(map[string]interface{}{"loader": "InMemLoader", "history": []string{ops[0].String(), ops[5].String()}, "queries": c19Spellings("/a.jet")})

	// --- OS / http loaders: all trees x all paths
	paths := c19Paths()
	trees := c19Trees()
	r.ParallelFor(int64(len(trees)), func(i int64) {
		t := trees[i]
		root := filepath.Join(tmp, fmt.Sprintf("tree%d", i))
		os.MkdirAll(root, 0o755)
		if err := c19Materialise(root, t); err != nil {
			panic(err)
		}
		var desc []string
		for k, v := range t {
			desc = append(desc, k+"="+v)
		}
		sort.Strings(desc)
		for name, l := range c19FSLoaders(root) {
			for _, p := range paths {
				want, got := c19WantFS(t, p), c19Query(l, p)
				r.Eval()
				if got != want {
					viol(&c19Case{Loader: name, History: desc, Query: p, Want: want, Got: got})
				} else {
					r.Distinct(name + ":" + want)
				}
			}
		}
		os.RemoveAll(root)
	})
	states += int64(len(trees))
	transitions += int64(len(trees) * len(paths) * 2)
	r.Sample(map[string]interface{}{"loader": "OSFileSystemLoader/httpfs", "tree": trees[37], "queries": paths})


	// --- OS / http loaders: symbolic links. The statement does not say whether a link counts as "a regular file
	// below the root", so only its first sentence is demanded here: Exists(p) => Open(p) yields the bytes of the
	// regular file p leads to. A link to a directory or to nothing can therefore never be reported as existing.
	linkTargets := []string{"/a", "/a/a", "/a/b", "/nowhere"}
	r.ParallelFor(int64(11*len(linkTargets)), func(i int64) {
		t := c19Tree{}
		for k, v := range trees[int(i/int64(len(linkTargets)))*11] { // trees[ca*11+0]: node a = code ca, b absent
			t[k] = v
		}
		target := linkTargets[i%int64(len(linkTargets))]
		root := filepath.Join(tmp, fmt.Sprintf("link%d", i))
		os.MkdirAll(root, 0o755)
		defer os.RemoveAll(root)
		if err := c19Materialise(root, t); err != nil {
			panic(err)
		}
		rel := "." + target // /b -> ./a ... relative to the root directory
		if err := os.Symlink(filepath.FromSlash(rel), filepath.Join(root, "b")); err != nil {
			return // no symlinks on this file system
		}
		var desc []string
		for k, v := range t {
			desc = append(desc, k+"="+v)
		}
		sort.Strings(desc)
		desc = append(desc, "/b -> "+target)
		for name, l := range c19FSLoaders(root) {
			for _, p := range paths {
				q := p
				if p == "/b" || strings.HasPrefix(p, "/b/") {
					q = target + strings.TrimPrefix(p, "/b")
				}
				leadsTo, got := c19WantFS(t, q), c19Query(l, p)
				r.Eval()
				switch {
				case got == "absent":
					if q == p && leadsTo != "absent" {
						viol(&c19Case{Loader: name, History: desc, Query: p, Want: leadsTo, Got: got})
					}
				case got != leadsTo:
					viol(&c19Case{Loader: name, History: desc, Query: p, Want: "absent, or (only if it leads to a regular file) " + leadsTo, Got: got})
				default:
					r.Distinct(name + ":link:" + got)
				}
			}
		}
	})
	states += int64(11 * len(linkTargets))
	transitions += int64(11 * len(linkTargets) * len(paths) * 2)

	// --- OS / http loaders: edit histories
	ed := 3
	if r.Thorough() {
		ed = 4
	}
	etotal := int64(0)
	for d := 1; d <= ed; d++ {
		etotal += pow(int64(len(c19Edits)), int64(d))
	}
	r.ParallelFor(etotal, func(i int64) {
		idx := i
		d := 1
		for ; d <= ed; d++ {
			n := pow(int64(len(c19Edits)), int64(d))
			if i < n {
				break
			}
			i -= n
		}
		root := filepath.Join(tmp, fmt.Sprintf("hist%d", idx))
		os.MkdirAll(root, 0o755)
		defer os.RemoveAll(root)
		t := c19Tree{}
		loaders := c19FSLoaders(root) // created once, before the edits: the loaders must see every later edit
		var hs []string
		for j := 0; j < d; j++ {
			e := c19Edits[i%int64(len(c19Edits))]
			i /= int64(len(c19Edits))
			c19Apply(root, t, e)
			hs = append(hs, e.String())
			for name, l := range loaders {
				for _, p := range []string{"/a", "/a/b", "/b", "/a/a"} {
					want, got := c19WantFS(t, p), c19Query(l, p)
					r.Eval()
					if got != want {
						viol(&c19Case{Loader: name, History: append([]string{}, hs...), Query: p, Want: want, Got: got})
					}
				}
			}
		}
	})
	transitions += etotal

	// --- embed loader: the embedded tree
	el := embedfs.NewLoader("embedtree", c19Embed)
	etree := c19Tree{"/a": "file:file:/a", "/b": "dir", "/b/a": "dir", "/b/b": "dir", "/b/a/a": "file:file:/b/a/a", "/b/b/b": "file:file:/b/b/b", "/c.jet": "file:file:/c.jet"}
	for _, p := range append(paths, "/c.jet", "/c", "/b/a/a/a") {
		want, got := c19WantFS(etree, p), c19Query(el, p)
		r.Eval()
		transitions++
		if got != want {
			viol(&c19Case{Loader: "embedfs", History: []string{"embedded tree"}, Query: p, Want: want, Got: got})
		} else {
			r.Distinct("embed:" + want)
		}
	}

	// --- multi loader: all stacks of 3 members
	memberRoot := func(m, combo int) string { return filepath.Join(tmp, fmt.Sprintf("member%d_%d", m, combo)) }
	mpaths := []string{"/a", "/b"}
	for m := 0; m < 3; m++ {
		for combo := 0; combo < 9; combo++ {
			t := c19Tree{}
			for pi, p := range mpaths {
				k := combo % 3
				if pi == 1 {
					k = combo / 3
				}
				switch k {
				case 1:
					t[p] = fmt.Sprintf("file:member%d%s", m, p)
				case 2:
					t[p] = "dir"
				}
			}
			os.MkdirAll(memberRoot(m, combo), 0o755)
			c19Materialise(memberRoot(m, combo), t)
		}
	}
	r.ParallelFor(729*2*5, func(i int64) {
		ix := core.Radix(i, 9, 9, 9, 2, 5)
		var members []jet.Loader
		for m := 0; m < 3; m++ {
			root := memberRoot(m, ix[m])
			if ix[3] == 0 {
				members = append(members, jet.NewOSFileSystemLoader(root))
			} else {
				h, _ := httpfs.NewLoader(http.Dir(root))
				members = append(members, h)
			}
		}
		var ml *multi.Multi
		var how string
		switch ix[4] {
		case 0:
			ml, how = multi.NewLoader(members...), "NewLoader(m0,m1,m2)"
		case 1:
			ml, how = multi.NewLoader(), "NewLoader();AddLoaders(m0,m1,m2)"
			ml.AddLoaders(members...)
		case 2:
			ml, how = multi.NewLoader(members[0]), "NewLoader(m0);AddLoaders(m1);AddLoaders(m2)"
			ml.AddLoaders(members[1])
			ml.AddLoaders(members[2])
		case 3:
			ml, how = multi.NewLoader(members[2], members[1]), "NewLoader(m2,m1);ClearLoaders();AddLoaders(m0,m1,m2)"
			ml.ClearLoaders()
			ml.AddLoaders(members...)
		default: // the caller re-adds the slice it constructed the loader from: the loader must not have written into it
			stack := make([]jet.Loader, 2, 4)
			stack[0], stack[1] = members[1], members[2]
			ml, how = multi.NewLoader(stack...), "s:=[m1,m2](cap 4);NewLoader(s...);ClearLoaders();AddLoaders(m0);AddLoaders(s...)"
			ml.ClearLoaders()
			ml.AddLoaders(members[0])
			ml.AddLoaders(stack...)
		}
		for pi, p := range mpaths {
			want := "absent"
			for m := 0; m < 3; m++ {
				k := ix[m] % 3
				if pi == 1 {
					k = ix[m] / 3
				}
				if k == 1 {
					want = fmt.Sprintf("file:member%d%s", m, p)
					break
				}
			}
			got := c19Query(ml, p)
			r.Eval()
			if got != want {
				kind := "OS members"
				if ix[3] == 1 {
					kind = "httpfs members"
				}
				viol(&c19Case{Loader: "multi (" + kind + ")", History: []string{how, fmt.Sprintf("member states (0 absent,1 file,2 dir; a + 3*b): %d %d %d", ix[0], ix[1], ix[2])}, Query: p, Want: want, Got: got})
			} else {
				r.Distinct("multi:" + want)
			}
		}
	})
	states += 729
	transitions += 729 * 2 * 4 * 2

	// --- multi loader: histories of member edits, AddLoaders/ClearLoaders, and *separate* Exists / Open calls
	mops := []string{"set0", "del0", "set1", "del1", "clear", "add0", "add1", "exists", "open"}
	mdepth := 5
	if r.Thorough() {
		mdepth = 6
	}
	mtotal := int64(0)
	for d := 1; d <= mdepth; d++ {
		mtotal += pow(int64(len(mops)), int64(d))
	}
	r.ParallelFor(mtotal, func(i int64) {
		d := 1
		for ; d <= mdepth; d++ {
			n := pow(int64(len(mops)), int64(d))
			if i < n {
				break
			}
			i -= n
		}
		mem := []*jet.InMemLoader{jet.NewInMemLoader(), jet.NewInMemLoader()}
		ml := multi.NewLoader(mem[0], mem[1])
		stack := []int{0, 1}
		content := []string{"", ""} // reference: what each member holds under /a ("" = nothing)
		var hs []string
		for j := 0; j < d; j++ {
			op := mops[i%int64(len(mops))]
			i /= int64(len(mops))
			hs = append(hs, op)
			switch op {
			case "set0", "set1":
				k := int(op[3] - '0')
				content[k] = fmt.Sprintf("m%d-v%d", k, j)
				mem[k].Set("/a", content[k])
			case "del0", "del1":
				k := int(op[3] - '0')
				content[k] = ""
				mem[k].Delete("/a")
			case "clear":
				ml.ClearLoaders()
				stack = nil
			case "add0", "add1":
				k := int(op[3] - '0')
				ml.AddLoaders(mem[k])
				stack = append(stack, k)
			case "exists", "open":
				want := "absent"
				for _, k := range stack {
					if content[k] != "" {
						want = "file:" + content[k]
						break
					}
				}
				got := ""
				if op == "exists" {
					got = "absent"
					if ml.Exists("/a") {
						got = "file:" // only presence is observable
					}
					if (got == "absent") != (want == "absent") {
						viol(&c19Case{Loader: "multi (history)", History: append([]string{}, hs...), Query: "Exists(/a)", Want: want, Got: got})
						return
					}
				} else {
					rc, err := ml.Open("/a")
					if err != nil {
						got = "absent"
					} else {
						b, _ := io.ReadAll(rc)
						rc.Close()
						got = "file:" + string(b)
					}
					// Open without a preceding Exists is outside the Loader contract only for absent paths:
					// when the reference has the path, Open must yield exactly the first member's content
					if want != "absent" && got != want {
						viol(&c19Case{Loader: "multi (history)", History: append([]string{}, hs...), Query: "Open(/a)", Want: want, Got: got})
						return
					}
					if want == "absent" && got != "absent" {
						viol(&c19Case{Loader: "multi (history)", History: append([]string{}, hs...), Query: "Open(/a)", Want: want, Got: got})
						return
					}
				}
				r.Eval()
			}
		}
	})
	transitions += mtotal
	r.Sample(map[string]interface{}{"loader": "multi", "stack": "member states 1 5 7, NewLoader(m0,m1,m2)", "queries": mpaths})
	return map[string]interface{}{"states": states, "transitions": transitions, "traces_validated_against_impl": r.Evals(), "inmem_fixpoint": true, "trees": len(trees), "paths": len(paths)}
}

func c19Classify(c *c19Case) string { return "" }

func init() {
	Registry["C19"] = C19
	Replayers["C19"] = func(raw json.RawMessage) string {
		var c c19Case
		if err := json.Unmarshal(raw, &c); err != nil {
			return err.Error()
		}
		if c.Loader == "InMemLoader" {
			byName := map[string]c19MemOp{}
			for _, o := range c19MemOps() {
				byName[o.String()] = o
			}
			var h []c19MemOp
			for _, s := range c.History {
				h = append(h, byName[s])
			}
			if _, bad := c19MemReplay(h); bad != nil {
				return fmt.Sprintf("%s answers %q, reference %q", bad.Query, bad.Got, bad.Want)
			}
			return ""
		}
		// file-system cases: rebuild the recorded tree ("path=kind" entries) and query again
		tmp, err := os.MkdirTemp("", "c19r-")
		if err != nil {
			return err.Error()
		}
		defer os.RemoveAll(tmp)
		t := c19Tree{}
		for _, h := range c.History {
			if i := strings.Index(h, "="); i > 0 && strings.HasPrefix(h, "/") {
				t[h[:i]] = h[i+1:]
			}
		}
		hasLink := false
		for _, h := range c.History {
			hasLink = hasLink || strings.HasPrefix(h, "/b -> ")
		}
		if len(t) == 0 && !hasLink {
			return "replay of this loader case needs the explorer (run the check)"
		}
		c19Materialise(tmp, t)
		for _, h := range c.History {
			if strings.HasPrefix(h, "/b -> ") {
				target := strings.TrimPrefix(h, "/b -> ")
				os.Symlink(filepath.FromSlash("."+target), filepath.Join(tmp, "b"))
				for name, l := range c19FSLoaders(tmp) {
					if name != c.Loader {
						continue
					}
					q := c.Query
					if q == "/b" || strings.HasPrefix(q, "/b/") {
						q = target + strings.TrimPrefix(q, "/b")
					}
					got, leadsTo := c19Query(l, c.Query), c19WantFS(t, q)
					if got != "absent" && got != leadsTo {
						return fmt.Sprintf("%s: %s answers %q although it leads to %q", name, c.Query, got, leadsTo)
					}
				}
				return ""
			}
		}
		for name, l := range c19FSLoaders(tmp) {
			if name == c.Loader {
				if got := c19Query(l, c.Query); got != c19WantFS(t, c.Query) {
					return fmt.Sprintf("%s: %s answers %q, reference %q", name, c.Query, got, c19WantFS(t, c.Query))
				}
			}
		}
		return ""
	}
}
