package props

import (
	"fmt"
	"strings"

	"verif/mc/internal/core"
	rj "verif/mc/internal/refjet"
)

// C04 — precedence, associativity, typing and laziness of expressions.

var c04Ops = []string{"+", "-", "*", "/", "%", "<", "<=", ">", ">=", "==", "!=", "&&", "||"}

type c04Operand struct {
	name string
	x    func() rj.Expr
}

func c04V(n string) func() rj.Expr { return func() rj.Expr { return rj.V(n) } }

// the 8-letter operand alphabet of the tree spaces
var c04Operands = []c04Operand{
	{"int7", c04V("a7")},
	{"int2", c04V("a2")},
	{"int-3", c04V("an3")},
	{"float2.5", c04V("f25")},
	{"lit3", func() rj.Expr { return rj.N(3) }},
	{"lit1.5", func() rj.Expr { return rj.N(1.5) }},
	{"str", c04V("sAb")},
	{"true", func() rj.Expr { return rj.B(true) }},
}

// the wider alphabet of the single-operator space
var c04Wide = append(append([]c04Operand{}, c04Operands...),
	c04Operand{"int0", c04V("a0")},
	c04Operand{"false", func() rj.Expr { return rj.B(false) }},
	c04Operand{"str3", c04V("s3")},
	c04Operand{"litstr", func() rj.Expr { return rj.S("ab") }},
	c04Operand{"field7", func() rj.Expr { return rj.F(nil, "i7") }},
	c04Operand{"fieldf", func() rj.Expr { return rj.F(nil, "f05") }},
	c04Operand{"lit0", func() rj.Expr { return rj.N(0) }},
	c04Operand{"int64", c04V("b5")},
	c04Operand{"f32", c04V("g15")},
	c04Operand{"empty", func() rj.Expr { return rj.S("") }},
	c04Operand{"float7.5", c04V("f75")},
	c04Operand{"lit7.5", func() rj.Expr { return rj.N(7.5) }},
	c04Operand{"bigA", c04V("bigA")},
	c04Operand{"bigB", c04V("bigB")},
	c04Operand{"int-2", c04V("an2")},
	c04Operand{"float-2.5", c04V("fn25")},
	c04Operand{"float-0.5", c04V("fn05")},
	c04Operand{"uint9", c04V("u9")},   // Go integers of unsigned kinds (plain uint is the first of its kind range)
	c04Operand{"uint8-2", c04V("u82")},
	c04Operand{"uint64-9", c04V("u649")},
	c04Operand{"nil", func() rj.Expr { return rj.Nil() }},
	// other spellings of numeric literals ("every numeric literal is a floating-point operand")
	c04Operand{"lit1e3", func() rj.Expr { return &rj.Raw{Src: "1e3", V: 1000.0} }},
	c04Operand{"lit25e-1", func() rj.Expr { return &rj.Raw{Src: "25e-1", V: 2.5} }},
	c04Operand{"lit0x10", func() rj.Expr { return &rj.Raw{Src: "0x10", V: 16.0} }},
	c04Operand{"lit.5", func() rj.Expr { return &rj.Raw{Src: ".5", V: 0.5} }},
)

func c04Mk(log *[]string) rj.Inputs {
	probe := func(name string, v bool) func() bool {
		return func() bool { *log = append(*log, name); return v }
	}
	return rj.Inputs{
		Vars: map[string]interface{}{
			"a7": 7, "a2": 2, "an3": -3, "an2": -2, "fn25": -2.5, "fn05": -0.5, "u9": uint(9), "u82": uint8(2), "u649": uint64(9), "a0": 0, "f25": 2.5, "f75": 7.5, "sAb": "ab", "s3": "3", "b5": int64(5), "g15": float32(1.5), "bigA": int64(1)<<62 + 1, "bigB": int64(1) << 62,
			"sl": []int{7, 2}, "id": func(x int) int { return x },
			"pT": probe("pT", true), "pF": probe("pF", false), "qT": probe("qT", true), "qF": probe("qF", false),
			"rT": probe("rT", true), "rF": probe("rF", false),
		},
		Data: map[string]interface{}{"i7": 7, "f05": 0.5, "s": "ab"},
	}
}

func c04Prog(e rj.Expr) *rj.Program {
	return &rj.Program{Files: []*rj.File{{Name: "/t.jet", Body: []rj.Stmt{rj.T("["), rj.E(e), rj.T("]")}}}, Entry: "/t.jet", Mk: c04Mk}
}

func c04Bin(op string, l, r rj.Expr) rj.Expr { return &rj.Bin{Op: op, L: l, R: r} }

// c04Styles: minimal parentheses, full parentheses, tight spacing, word operators
func c04Printer(style int) *rj.Printer {
	p := rj.NewPrinter()
	switch style {
	case 1:
		p.Full = true
	case 2:
		p.Pad = " "
	case 3:
		p.Words = true
	}
	return p
}

// ---- space "one": every binary operator x every pair of the wide alphabet, unary operators, ternary
var c04One = registerSpace(&e1Space{
	Prop: "C04", Name: "one",
	N: func(th bool) int64 {
		w := int64(len(c04Wide))
		return (int64(len(c04Ops))*w*w + 3*w + w*w*w/4) * 2
	},
	Gen: func(i int64, th bool) *rj.Program {
		i /= 2
		w := int64(len(c04Wide))
		nb := int64(len(c04Ops)) * w * w
		switch {
		case i < nb:
			op := c04Ops[i%int64(len(c04Ops))]
			i /= int64(len(c04Ops))
			return c04Prog(c04Bin(op, c04Wide[i%w].x(), c04Wide[i/w].x()))
		case i < nb+3*w:
			i -= nb
			op := []string{"!", "not", "-"}[i%3]
			return c04Prog(&rj.Un{Op: op, X: c04Wide[i/3].x()})
		default:
			i -= nb + 3*w
			if i >= w*w*w/4 {
				return nil
			}
			i *= 4
			return c04Prog(&rj.Tern{C: c04Wide[i%w].x(), A: c04Wide[(i/w)%w].x(), B: c04Wide[i/(w*w)%w].x()})
		}
	},
	Printer: func(i int64) *rj.Printer { return c04Printer(int(i % 2 * 2)) },
	Quirks: []string{"float-mod-truncates-operands"},
})

// ---- space "two": all trees with two operators
func c04TwoShapes() int64 {
	nb := int64(len(c04Ops))
	return 2*nb*nb + 2*3*nb + 3*nb + 3*nb + 2 // bin-bin (2 shapes), un in bin (l/r), un of bin, tern with bin in each slot, tern in tern (2)
}

func c04TwoTree(shape int64, a, b, c, d rj.Expr) rj.Expr {
	nb := int64(len(c04Ops))
	uns := []string{"!", "not", "-"}
	switch {
	case shape < nb*nb:
		return c04Bin(c04Ops[shape/nb], c04Bin(c04Ops[shape%nb], a, b), c)
	case shape < 2*nb*nb:
		shape -= nb * nb
		return c04Bin(c04Ops[shape/nb], a, c04Bin(c04Ops[shape%nb], b, c))
	}
	shape -= 2 * nb * nb
	switch {
	case shape < 3*nb:
		return c04Bin(c04Ops[shape/3], &rj.Un{Op: uns[shape%3], X: a}, b)
	case shape < 6*nb:
		shape -= 3 * nb
		return c04Bin(c04Ops[shape/3], a, &rj.Un{Op: uns[shape%3], X: b})
	}
	shape -= 6 * nb
	switch {
	case shape < 3*nb:
		return &rj.Un{Op: uns[shape%3], X: c04Bin(c04Ops[shape/3], a, b)}
	}
	shape -= 3 * nb
	switch {
	case shape < 3*nb:
		bin := c04Bin(c04Ops[shape/3], a, b)
		switch shape % 3 {
		case 0:
			return &rj.Tern{C: bin, A: c, B: d}
		case 1:
			return &rj.Tern{C: c, A: bin, B: d}
		default:
			return &rj.Tern{C: c, A: d, B: bin}
		}
	}
	shape -= 3 * nb
	if shape == 0 {
		return &rj.Tern{C: a, A: b, B: &rj.Tern{C: c, A: d, B: a}} // right-nested without parentheses
	}
	return &rj.Tern{C: a, A: &rj.Tern{C: b, A: c, B: d}, B: a}
}

var c04Two = registerSpace(&e1Space{
	Prop: "C04", Name: "two",
	N: func(th bool) int64 {
		k := int64(len(c04Operands))
		return c04TwoShapes() * k * k * k * 2
	},
	Gen: func(i int64, th bool) *rj.Program {
		i /= 2
		k := int64(len(c04Operands))
		sh := i % c04TwoShapes()
		i /= c04TwoShapes()
		a, b, c := c04Operands[i%k].x(), c04Operands[(i/k)%k].x(), c04Operands[i/(k*k)].x()
		d := c04Operands[(i+3)%k].x()
		return c04Prog(c04TwoTree(sh, a, b, c, d))
	},
	Printer:  func(i int64) *rj.Printer { return c04Printer(int(i % 2)) },
	Quirks: []string{"float-mod-truncates-operands"},
})

// ---- space "three": all trees with three binary operators, one or two operators per level
var c04LevelOps = []string{"*", "+", "<", "==", "&&"}
var c04LevelOps2 = []string{"*", "/", "%", "+", "-", "<", ">=", "==", "!=", "&&", "||"}
var c04ThreeOperands = []func() rj.Expr{c04V("a7"), c04V("a2"), func() rj.Expr { return rj.N(1.5) }}

func c04ThreeTree(shape int, o []string, x []rj.Expr) rj.Expr {
	a, b, c, d := x[0], x[1], x[2], x[3]
	switch shape {
	case 0:
		return c04Bin(o[2], c04Bin(o[1], c04Bin(o[0], a, b), c), d)
	case 1:
		return c04Bin(o[2], c04Bin(o[0], a, c04Bin(o[1], b, c)), d)
	case 2:
		return c04Bin(o[1], c04Bin(o[0], a, b), c04Bin(o[2], c, d))
	case 3:
		return c04Bin(o[0], a, c04Bin(o[2], c04Bin(o[1], b, c), d))
	default:
		return c04Bin(o[0], a, c04Bin(o[1], b, c04Bin(o[2], c, d)))
	}
}

var c04Three = registerSpace(&e1Space{
	Prop: "C04", Name: "three",
	N: func(th bool) int64 {
		ops := int64(len(c04LevelOps))
		if th {
			ops = int64(len(c04LevelOps2))
		}
		return 5 * ops * ops * ops * 81 * 3
	},
	Gen: func(i int64, th bool) *rj.Program {
		set := c04LevelOps
		if th {
			set = c04LevelOps2
		}
		ops := int64(len(set))
		i /= 3
		sh := int(i % 5)
		i /= 5
		o := []string{set[i%ops], set[(i/ops)%ops], set[(i/(ops*ops))%ops]}
		i /= ops * ops * ops
		var x []rj.Expr
		for j := 0; j < 4; j++ {
			x = append(x, c04ThreeOperands[i%3]())
			i /= 3
		}
		return c04Prog(c04ThreeTree(sh, o, x))
	},
	Printer: func(i int64) *rj.Printer { return c04Printer([]int{0, 1, 3}[i%3]) },
	Quirks: []string{"float-mod-truncates-operands"},
})

// ---- space "spacing": every binary operator x left-operand shape, tight vs spaced
var c04Lefts = []func() rj.Expr{
	c04V("a7"),
	func() rj.Expr { return rj.F(nil, "i7") },
	func() rj.Expr { return rj.CallV("id", rj.V("a7")) },
	func() rj.Expr { return &rj.Index{X: rj.V("sl"), I: rj.N(0)} },
	func() rj.Expr { return &rj.Paren{X: rj.V("a7")} },
	func() rj.Expr { return rj.N(7) },
	func() rj.Expr { return rj.S("ab") },
	func() rj.Expr { return rj.B(true) },
	func() rj.Expr { return rj.F(rj.V("m"), "k") },
	func() rj.Expr { return &rj.Paren{X: c04Bin("+", rj.V("a7"), rj.N(1))} },
}
var c04Rights = []func() rj.Expr{
	func() rj.Expr { return rj.N(1) },
	c04V("a2"),
	func() rj.Expr { return rj.F(nil, "i7") },
	func() rj.Expr { return &rj.Paren{X: rj.V("a2")} },
	func() rj.Expr { return rj.S("x") },
	func() rj.Expr { return &rj.Un{Op: "-", X: rj.V("a2")} },
}

var c04Spacing = registerSpace(&e1Space{
	Prop: "C04", Name: "spacing",
	N: func(th bool) int64 { return int64(len(c04Ops)*len(c04Lefts)*len(c04Rights)) * 2 },
	Gen: func(i int64, th bool) *rj.Program {
		i /= 2
		op := c04Ops[i%int64(len(c04Ops))]
		i /= int64(len(c04Ops))
		l := c04Lefts[i%int64(len(c04Lefts))]()
		r := c04Rights[i/int64(len(c04Lefts))]()
		p := c04Prog(c04Bin(op, l, r))
		mk := p.Mk
		p.Mk = func(log *[]string) rj.Inputs {
			in := mk(log)
			in.Vars["m"] = map[string]interface{}{"k": 7}
			return in
		}
		return p
	},
	Printer: func(i int64) *rj.Printer {
		p := rj.NewPrinter()
		p.Tight = i%2 == 1
		return p
	},
	Quirks: []string{"float-mod-truncates-operands"},
})

// ---- space "lazy": all trees of depth <= 3 over {&&, ||, ?:, !} with side-effecting probe leaves
func c04LazyTrees(depth int, leaves []rj.Expr) []func() rj.Expr {
	var out []func() rj.Expr
	for _, l := range leaves {
		l := l
		out = append(out, func() rj.Expr { return l })
	}
	if depth == 0 {
		return out
	}
	sub := c04LazyTrees(depth-1, leaves)
	if depth >= 2 && len(sub) > 14 {
		sub = sub[:14] // keep the ternary fan-out bounded: the first 14 subtrees are the simplest ones
	}
	for _, a := range sub {
		a := a
		out = append(out, func() rj.Expr { return &rj.Un{Op: "!", X: a()} })
		for _, b := range sub {
			b := b
			out = append(out, func() rj.Expr { return &rj.Bin{Op: "&&", L: a(), R: b()} })
			out = append(out, func() rj.Expr { return &rj.Bin{Op: "||", L: a(), R: b()} })
			out = append(out, func() rj.Expr { return &rj.Bin{Op: "&&", L: a(), R: b(), Word: true} })
			for _, c := range sub[:minInt(len(sub), 6)] {
				c := c
				out = append(out, func() rj.Expr { return &rj.Tern{C: a(), A: b(), B: c()} })
			}
		}
	}
	return out
}

func minInt(a, b int) int {
	if a < b {
		return a
	}
	return b
}

var c04LazyCache []func() rj.Expr

func c04Lazy() []func() rj.Expr {
	if c04LazyCache == nil {
		leaves := []rj.Expr{rj.CallV("pT"), rj.CallV("pF"), rj.CallV("qT"), rj.CallV("qF")}
		c04LazyCache = c04LazyTrees(2, leaves)
	}
	return c04LazyCache
}

var c04LazySpace = registerSpace(&e1Space{
	Prop: "C04", Name: "lazy",
	N:    func(th bool) int64 { return int64(len(c04Lazy())) * 3 },
	Gen:  func(i int64, th bool) *rj.Program { return c04Prog(c04Lazy()[i/3]()) },
	Printer: func(i int64) *rj.Printer { return c04Printer([]int{0, 1, 3}[i%3]) },
	Extra: func(p *rj.Program, ref rj.Result, got rj.ImplResult) string {
		if strings.Join(ref.Log, ",") != strings.Join(got.Log, ",") {
			return fmt.Sprintf("operands evaluated %v, the reference evaluates exactly %v", got.Log, ref.Log)
		}
		return ""
	},
	Quirks: []string{"float-mod-truncates-operands"},
})

func C04(r *core.Run) map[string]interface{} {
	r.Rule = "all single-operator expressions over a 20-operand alphabet; all two-operator trees (13 binary, 3 unary, ternary) over 8 operands; all three-binary-operator trees over one (thorough: two) operator(s) per precedence level; every operator x 10 left x 6 right operand shapes, tight vs spaced; all trees of depth 2 over {&&,||,and,!,?:} with side-effecting probes (call log compared); each printed with minimal and with full parentheses; distinct = distinct reference results"
	runSpace(r, c04One)
	runSpace(r, c04Spacing)
	runSpace(r, c04LazySpace)
	runSpace(r, c04Three)
	runSpace(r, c04Two)
	return map[string]interface{}{"operators": c04Ops, "operand_alphabet": len(c04Wide), "lazy_trees": len(c04Lazy()), "traces_validated_against_impl": r.Evals()}
}

func init() {
	Registry["C04"] = C04
	Replayers["C04"] = replayE1
}
