package props

import (
	"encoding/json"
	"fmt"
	"io"
	"path"
	"strings"
	"sync"

	"github.com/CloudyKit/jet/v6"

	"verif/mc/internal/core"
)

// C15 — template names are canonicalised: loaders and caches only see clean
// absolute paths, resolved against the referrer's directory (extends/import/
// include) or the root (everything else).
//
// Space: every name spelling of <= maxSeg segments over {a,b,.,..,""} x
// {relative,absolute} x {trailing slash or not}, used at every entry point, from
// referrers at directory depth 0..2, under 3 extension lists, with development mode off and on. Oracle: the exact
// request trace predicted by a reference resolver built on path.Join/Clean.

type recLoader struct {
	mu    sync.Mutex
	files map[string]string
	trace []string
}

func (l *recLoader) Exists(p string) bool {
	l.mu.Lock()
	defer l.mu.Unlock()
	l.trace = append(l.trace, "E:"+p)
	_, ok := l.files[p]
	return ok
}

func (l *recLoader) Open(p string) (io.ReadCloser, error) {
	l.mu.Lock()
	defer l.mu.Unlock()
	l.trace = append(l.trace, "O:"+p)
	c, ok := l.files[p]
	if !ok {
		return nil, fmt.Errorf("%s does not exist", p)
	}
	return io.NopCloser(strings.NewReader(c)), nil
}

type recCache struct {
	mu    sync.Mutex
	m     map[string]*jet.Template
	trace *[]string
	lmu   *sync.Mutex
}

func (c *recCache) Get(p string) *jet.Template {
	c.lmu.Lock()
	*c.trace = append(*c.trace, "G:"+p)
	c.lmu.Unlock()
	c.mu.Lock()
	defer c.mu.Unlock()
	return c.m[p]
}

func (c *recCache) Put(p string, t *jet.Template) {
	c.lmu.Lock()
	*c.trace = append(*c.trace, "P:"+p)
	c.lmu.Unlock()
	c.mu.Lock()
	defer c.mu.Unlock()
	c.m[p] = t
}

var c15Entries = []string{"GetTemplate", "ParseExtends", "extends", "import", "include", "includeVar", "exec", "includeIfExists", "ParseInclude"}
var c15Referrers = []string{"/r.jet", "/d/r.jet", "/d/e/r.jet"}
var c15ExtLists = [][]string{nil, {""}, {".jet", ""}}
var c15Segs = []string{"a", "b", ".", "..", ""}

// c15Spelling builds spelling number i (mixed radix over segment count and letters).
func c15Spellings(maxSeg int) []string {
	var out []string
	var rec func(prefix []string, n int)
	rec = func(prefix []string, n int) {
		if len(prefix) == n {
			body := strings.Join(prefix, "/")
			for _, abs := range []bool{false, true} {
				for _, trail := range []bool{false, true} {
					s := body
					if abs {
						s = "/" + s
					}
					if trail {
						s += "/"
					}
					out = append(out, s)
				}
			}
			return
		}
		for _, sg := range c15Segs {
			rec(append(prefix, sg), n)
		}
	}
	for n := 0; n <= maxSeg; n++ {
		rec(nil, n)
	}
	// de-duplicate (e.g. "" + trailing slash == "/" absolute)
	seen := map[string]bool{}
	var uniq []string
	for _, s := range out {
		if !seen[s] {
			seen[s] = true
			uniq = append(uniq, s)
		}
	}
	return uniq
}

// c15Files is the fixed file population: every clean path of <=3 segments over {a,b} with ".jet".
func c15Files() map[string]string {
	f := map[string]string{}
	var rec func(p string, d int)
	rec = func(p string, d int) {
		if d > 0 {
			f[p+".jet"] = "T(" + p + ")"
		}
		if d == 3 {
			return
		}
		for _, s := range []string{"a", "b"} {
			rec(p+"/"+s, d+1)
		}
	}
	rec("", 0)
	f["/d/a.jet"] = "T(/d/a)"
	f["/d/e/a.jet"] = "T(/d/e/a)"
	f["/d/b/a.jet"] = "T(/d/b/a)"
	f["/d/e/b.jet"] = "T(/d/e/b)"
	f["/d/a/b.jet"] = "T(/d/a/b)"
	return f
}

type c15Case struct {
	Dev      bool     `json:"development_mode,omitempty"`
	Entry    string   `json:"entry"`
	Referrer string   `json:"referrer"`
	Name     string   `json:"name"`
	Exts     []string `json:"extensions"`
	Want     []string `json:"want_trace,omitempty"`
	Got      []string `json:"got_trace,omitempty"`
}

func c15Exts(e []string) []string {
	if e == nil {
		return []string{"", ".jet", ".html.jet", ".jet.html"}
	}
	return e
}

// c15Run executes one case on the implementation and returns the trace of
// loader/cache requests made for the name under test, plus the reference trace.
func c15Run(c *c15Case, files map[string]string) (got, want []string, unspecified string) {
	ld := &recLoader{files: map[string]string{}}
	for k, v := range files {
		ld.files[k] = v
	}
	ch := &recCache{m: map[string]*jet.Template{}, trace: &ld.trace, lmu: &ld.mu}
	opts := []jet.Option{jet.WithCache(ch)}
	if c.Dev {
		opts = append(opts, jet.InDevelopmentMode())
	}
	if c.Exts != nil {
		opts = append(opts, jet.WithTemplateNameExtensions(c.Exts))
	}
	set := jet.NewSet(ld, opts...)
	q := fmt.Sprintf("%q", c.Name)
	relative := false // does the entry resolve against the referrer's directory?
	referrer := c.Referrer
	mark := func() int { ld.mu.Lock(); defer ld.mu.Unlock(); return len(ld.trace) }
	since := func(n int) []string {
		ld.mu.Lock()
		defer ld.mu.Unlock()
		return append([]string(nil), ld.trace[n:]...)
	}
	safely := func(f func()) {
		defer func() { _ = recover() }()
		f()
	}
	cachesResult := true
	switch c.Entry {
	case "GetTemplate":
		n := mark()
		safely(func() { _, _ = set.GetTemplate(c.Name) })
		got = since(n)
	case "ParseExtends", "ParseInclude":
		// Set.Parse with a spelled path of its own: the referrer is the cleaned path.
		relative = true
		cachesResult = false
		src := "{{extends " + q + "}}"
		if c.Entry == "ParseInclude" {
			src = "{{include " + q + "}}"
			cachesResult = true
		}
		// spell the referrer un-cleanly: "x/../" + referrer without leading slash
		spelled := "x/.." + c.Referrer
		n := mark()
		safely(func() {
			t, err := set.Parse(spelled, src)
			if err == nil && c.Entry == "ParseInclude" {
				_ = t.Execute(io.Discard, nil, nil)
			}
		})
		got = since(n)
	case "extends", "import", "include", "includeVar", "exec", "includeIfExists":
		var src string
		switch c.Entry {
		case "extends":
			src, relative = "{{extends "+q+"}}", true
		case "import":
			src, relative = "{{import "+q+"}}", true
		case "include":
			src, relative = "{{include "+q+"}}", true
		case "includeVar":
			src, relative = "{{include n}}", true
		case "exec":
			src = "{{exec(" + q + ")}}"
		case "includeIfExists":
			src = "{{includeIfExists(" + q + ")}}"
		}
		ld.files[c.Referrer] = src
		if c.Entry == "extends" || c.Entry == "import" {
			// the lookup happens while the referrer is parsed
			n := mark()
			safely(func() { _, _ = set.GetTemplate(c.Referrer) })
			all := since(n)
			// drop the requests for the referrer itself (prefix up to and including its Open)
			cut := 0
			for i, e := range all {
				if e == "O:"+c.Referrer {
					cut = i + 1
					break
				}
			}
			got = all[cut:]
			// and the trailing Put of the referrer
			if len(got) > 0 && got[len(got)-1] == "P:"+c.Referrer {
				got = got[:len(got)-1]
			}
		} else {
			var t *jet.Template
			safely(func() { t, _ = set.GetTemplate(c.Referrer) })
			if t == nil {
				return nil, nil, "referrer did not load"
			}
			n := mark()
			safely(func() {
				vars := jet.VarMap{}
				vars.Set("n", c.Name)
				_ = t.Execute(io.Discard, vars, nil)
			})
			got = since(n)
		}
	}
	// reference
	var resolved string
	if path.IsAbs(c.Name) || !relative {
		resolved = path.Join("/", c.Name)
	} else {
		resolved = path.Join(path.Dir(referrer), c.Name)
	}
	exts := c15Exts(c.Exts)
	for _, e := range exts {
		want = append(want, "G:"+resolved+e)
	}
	found := ""
	for _, e := range exts {
		want = append(want, "E:"+resolved+e)
		if _, ok := files[resolved+e]; ok {
			found = resolved + e
			break
		}
	}
	if found != "" {
		want = append(want, "O:"+found)
		if cachesResult {
			want = append(want, "P:"+resolved)
		}
	}
	return got, want, ""
}

func c15Check(c *c15Case, files map[string]string) (got []string, sig, what string) {
	got, want, unspec := c15Run(c, files)
	if unspec != "" {
		return nil, "", ""
	}
	// direct statement: every argument is absolute and lexically clean (modulo the appended extension)
	for _, g := range got {
		p := g[2:]
		if !strings.HasPrefix(p, "/") || path.Clean(p) != p {
			c.Got, c.Want = got, want
			cls := "unclean-path"
			if path.IsAbs(c.Name) {
				cls = "unclean-path-absolute-name"
			}
			return got, cls + ":" + c.Entry, fmt.Sprintf("%s of %q from %s hands %q to the loader/cache (not a clean absolute path)", c.Entry, c.Name, c.Referrer, p)
		}
	}
	// What the statement fixes about the requests themselves: the name resolves to one clean path, so every
	// loader and cache request is for that path (plus a configured extension) and nothing else - "the same
	// template is always requested under the same path" -, and the file that is opened is the resolution's.
	// In which order, how often, and whether Exists precedes Open belongs to C16, not here.
	keys := map[string]bool{}
	opened := ""
	for _, w := range want {
		keys[w[2:]] = true
		if w[0] == 'O' {
			opened = w[2:]
		}
	}
	bad := false
	sawOpen := false
	for _, g := range got {
		if !keys[g[2:]] {
			bad = true
		}
		if g[0] == 'O' {
			sawOpen = true
			if g[2:] != opened {
				bad = true
			}
		}
	}
	if opened != "" && !sawOpen {
		bad = true
	}
	if bad {
		c.Got, c.Want = got, want
		return got, "", fmt.Sprintf("%s of %q from %s: request trace differs from the reference resolution", c.Entry, c.Name, c.Referrer)
	}
	return got, "", ""
}

func C15(r *core.Run) map[string]interface{} {
	maxSeg := 4
	if r.Thorough() {
		maxSeg = 5
	}
	sp := c15Spellings(maxSeg)
	files := c15Files()
	total := core.Product(len(sp), len(c15Entries), len(c15Referrers), len(c15ExtLists), 2)
	r.Rule = "every name spelling (segments over {a,b,.,..,empty}, relative/absolute, trailing slash) x entry point x referrer depth x extension list; non-trivial = spelling differs from its clean resolution; distinct = distinct observed request traces"
	r.ParallelFor(total, func(i int64) {
		ix := core.Radix(i, len(c15Entries), len(c15Referrers), len(c15ExtLists), len(sp), 2)
		c := &c15Case{Entry: c15Entries[ix[0]], Referrer: c15Referrers[ix[1]], Exts: c15ExtLists[ix[2]], Name: sp[ix[3]], Dev: ix[4] == 1}
		got, sig, what := c15Check(c, files)
		r.Eval()
		if what != "" {
			r.Violate(core.Violation{Sig: sig, What: what, Case: c})
			return
		}
		if path.Clean(c.Name) != c.Name {
			r.Distinct(strings.Join(got, "|"))
		}
		if i%9973 == 0 {
			cc := *c
			cc.Got = got
			r.Sample(cc)
		}
	})
	return map[string]interface{}{
		"spellings": len(sp), "entry_points": c15Entries, "referrers": c15Referrers, "max_segments": maxSeg,
		"traces_validated_against_impl": r.Evals(),
	}
}

func init() {
	Registry["C15"] = C15
	Replayers["C15"] = func(raw json.RawMessage) string {
		var c c15Case
		if err := json.Unmarshal(raw, &c); err != nil {
			return err.Error()
		}
		c.Got, c.Want = nil, nil
		_, _, what := c15Check(&c, c15Files())
		return what
	}
}
