package props

import (
	"bytes"
	"encoding/json"
	"fmt"
	"reflect"
	"strings"

	"github.com/CloudyKit/jet/v6"

	"verif/mc/internal/core"
	rj "verif/mc/internal/refjet"
)

// C06 — field, index and method access reach Go data uniformly and fail loudly.
// C17 — isset never fails and is true exactly when every argument exists and is non-nil.
// Both are decided on one universe of Go types and one enumeration of access paths.

type UInner struct {
	Name   string
	N      int
	hidden int
}

func (UInner) ValM() string   { return "valm" }
func (*UInner) PtrM() string  { return "ptrm" }
func (i UInner) Echo(s string) string { return i.Name + ":" + s }

type UL4 struct{ Deepest, Deepest2 string }
type UL3 struct {
	ID, Title, Owner string
	UL4
}
type UL2 struct {
	Mid string
	UL3
}
type UEmbV struct {
	Promoted string
	Shadow   string
	UL2
	embHidden string
}
type UEmbP struct {
	PProm string
	PI    interface{} // holds a typed nil map
	PJ    interface{} // holds a typed nil pointer
	PK    interface{} // holds a string
	PN    *UInner     // a nil pointer that is itself the promoted field (not an embedded struct on the way to it)
	PQ    *UInner
}
type ULang string
type UID int64

type UOuter struct {
	UEmbV
	*UEmbP
	Shadow string // shadows the promoted UEmbV.Shadow
	In     UInner
	PIn    *UInner
	NilIn  *UInner
	PP     **UInner
	M      map[string]int
	MI     map[int]string
	MA     map[string]interface{}
	MS     map[string]UInner
	NilM   map[string]int
	ML     map[ULang]string // named key types: a plain string / integer index has the key's kind but not its type
	MID    map[UID]string
	S      []string
	SI     []UInner
	NilS   []string
	SC     []string // len 2, cap 4: the elements beyond len must never be reachable
	A      [2]int
	Str    string
	I      interface{}
	NilI   interface{}
	TNil   interface{} // holds (*UInner)(nil)
	TNilM  interface{} // holds map[string]int(nil)
	U8     uint8
	secret string
}

// UEarly declares the shadowing field *before* the embedded struct.
type UEarly struct {
	Shadow string
	UEmbV
}

func newUOuter(withEmbP bool) *UOuter {
	in := &UInner{Name: "pin", N: 2}
	o := &UOuter{
		UEmbV: UEmbV{Promoted: "prom", Shadow: "emb-shadow", embHidden: "eh", UL2: UL2{Mid: "mid", UL3: UL3{ID: "id-1", Title: "the-title", Owner: "the-owner", UL4: UL4{"deepest", "deepest2"}}}}, Shadow: "outer-shadow",
		In: UInner{Name: "in", N: 1}, PIn: in, PP: &in,
		M: map[string]int{"k": 7, "Name": 9}, MI: map[int]string{7: "seven"},
		MA: map[string]interface{}{"nilval": nil, "v": "mv", "in": UInner{Name: "ma-in"}},
		MS: map[string]UInner{"e": {Name: "ms-e", N: 5}},
		ML: map[ULang]string{"k": "lang-k", "Name": "", "e": "lang-e"}, MID: map[UID]string{7: "id-seven", 0: ""},
		S:  []string{"s0", "s1"}, SI: []UInner{{Name: "si0", N: 3}}, A: [2]int{4, 5}, Str: "str",
		I: UInner{Name: "iface"}, U8: 200, secret: "x", TNil: (*UInner)(nil), TNilM: map[string]int(nil),
	}
	backing := []string{"c0", "c1", "STALE2", "STALE3"}
	o.SC = backing[:2]
	if withEmbP {
		o.UEmbP = &UEmbP{PProm: "pprom", PI: map[string]int(nil), PJ: (*UInner)(nil), PK: "pk", PQ: &UInner{Name: "pq", N: 9}}
	}
	return o
}

type c06Step struct {
	src  string
	kind byte // 'f' field, 'x' index, 's' slice, 'c' method call
	name string
	idx  interface{}
	idxUndef bool
	lo, hi   interface{} // slice bounds: nil = omitted
	arg  string
}

var c06Fields = []string{"Promoted", "PProm", "Shadow", "In", "PIn", "NilIn", "PP", "M", "MI", "MA", "MS", "NilM", "ML", "MID", "S", "SI", "NilS", "SC", "A", "Str", "I", "NilI", "TNil", "TNilM", "PI", "PJ", "PK", "PN", "PQ", "U8", "secret", "Nope", "Name", "N", "hidden", "k", "absent", "nilval", "v", "in", "e", "UEmbV", "ID", "Title", "Owner", "Mid", "Deepest", "Deepest2", "UL2", "UL3", "embHidden"}

func c06Steps() []c06Step {
	var st []c06Step
	for _, f := range c06Fields {
		st = append(st, c06Step{src: "." + f, kind: 'f', name: f})
	}
	for _, f := range c06Fields {
		st = append(st, c06Step{src: `["` + f + `"]`, kind: 'x', idx: f})
	}
	st = append(st,
		c06Step{src: "[kName]", kind: 'x', idx: "Name"},
		c06Step{src: "[kK]", kind: 'x', idx: "k"},
		c06Step{src: "[0]", kind: 'x', idx: float64(0)},
		c06Step{src: "[1]", kind: 'x', idx: float64(1)},
		c06Step{src: "[5]", kind: 'x', idx: float64(5)},
		c06Step{src: "[7]", kind: 'x', idx: float64(7)},
		c06Step{src: "[8]", kind: 'x', idx: float64(8)},
		c06Step{src: "[1.5]", kind: 'x', idx: 1.5},
		c06Step{src: "[neg]", kind: 'x', idx: -1},
		c06Step{src: "[iv]", kind: 'x', idx: 1},
		c06Step{src: "[i7]", kind: 'x', idx: 7},
		c06Step{src: "[uv]", kind: 'x', idx: uint(1)},
		c06Step{src: "[nilv]", kind: 'x', idx: nil},
		c06Step{src: "[true]", kind: 'x', idx: true},
		c06Step{src: "[undefinedName]", kind: 'x', idxUndef: true},
		c06Step{src: ".ValM()", kind: 'c', name: "ValM"},
		c06Step{src: ".PtrM()", kind: 'c', name: "PtrM"},
		c06Step{src: `.Echo("a")`, kind: 'c', name: "Echo", arg: "a"},
		c06Step{src: ".NoMethod()", kind: 'c', name: "NoMethod"},
		c06Step{src: "[0:1]", kind: 's', lo: float64(0), hi: float64(1)},
		c06Step{src: "[:1]", kind: 's', hi: float64(1)},
		c06Step{src: "[1:]", kind: 's', lo: float64(1)},
		c06Step{src: "[:]", kind: 's'},
		c06Step{src: "[1:9]", kind: 's', lo: float64(1), hi: float64(9)},
		c06Step{src: "[2:1]", kind: 's', lo: float64(2), hi: float64(1)},
		c06Step{src: "[neg:]", kind: 's', lo: -1},
		c06Step{src: `["a":]`, kind: 's', lo: "a"},
		c06Step{src: "[iv:]", kind: 's', lo: 1},
	)
	return st
}

type c06Root struct {
	src  string
	kind string // "var" "global" "ctx"
	mk   func() interface{}
}

var c06Roots = []c06Root{
	{"rv", "var", func() interface{} { return *newUOuter(true) }},
	{"rp", "var", func() interface{} { return newUOuter(true) }},
	{"rn", "var", func() interface{} { return newUOuter(false) }}, // nil embedded pointer
	{"g", "global", func() interface{} { return newUOuter(true) }},
	{".", "ctx", func() interface{} { return newUOuter(true) }},
	{".", "ctx", func() interface{} { return *newUOuter(true) }},
	{"re", "var", func() interface{} { return UEarly{Shadow: "early-outer", UEmbV: UEmbV{Promoted: "p", Shadow: "early-emb"}} }},
	{"rm", "var", func() interface{} { return map[string]interface{}{"Name": "mapname", "in": UInner{Name: "m-in"}, "nilval": nil, "S": []string{"x"}} }},
	{"ri", "var", func() interface{} { var i interface{} = newUOuter(true); return &i }},
	{"rnil", "var", func() interface{} { return nil }},
	{"undefinedRoot", "undef", func() interface{} { return nil }},
}

// c06Resolve applies the steps to the root value, written from the statement on plain reflect.
type c06Res struct {
	st  rj.MStatus
	val reflect.Value // valid when st == MOk and the value is non-nil
	isNil bool
	storedNil bool // a nil interface stored in the data (its printed form is not part of the statement)
}

func c06Apply(cur c06Res, s c06Step) c06Res {
	if cur.st != rj.MOk {
		if cur.st == rj.MAbsent {
			// continuing below an absent key / nil: a nil dereference
			return c06Res{st: rj.MErr}
		}
		return cur
	}
	if cur.isNil || !cur.val.IsValid() {
		return c06Res{st: rj.MErr}
	}
	v := cur.val
	wrap := func(m rj.MRes) c06Res {
		switch m.St {
		case rj.MOk:
			if !m.RV.IsValid() {
				return c06Res{st: rj.MOk, isNil: true}
			}
			rv := m.RV
			if rv.Kind() == reflect.Interface {
				if rv.IsNil() {
					return c06Res{st: rj.MOk, isNil: true, storedNil: true}
				}
				rv = rv.Elem()
			}
			return c06Res{st: rj.MOk, val: rv}
		case rj.MAbsent:
			return c06Res{st: rj.MOk, isNil: true}
		}
		return c06Res{st: m.St}
	}
	switch s.kind {
	case 'f':
		m, _ := rj.MemberV(v, s.name)
		if m.St == rj.MAbsent {
			return c06Res{st: rj.MUnspec} // a.b on a map without that key: only a[k] is specified
		}
		if m.St == rj.MOk && m.RV.IsValid() && m.RV.Kind() == reflect.Func {
			return c06Res{st: rj.MUnspec} // a method value that is not called
		}
		return wrap(m)
	case 'x':
		if s.idxUndef {
			return c06Res{st: rj.MErr}
		}
		m := rj.IndexV(v, s.idx)
		if m.St == rj.MOk && m.RV.IsValid() && m.RV.Kind() == reflect.Func {
			return c06Res{st: rj.MUnspec}
		}
		return wrap(m)
	case 'c':
		m, _ := rj.MemberV(v, s.name)
		if m.St == rj.MUnspec {
			return c06Res{st: rj.MUnspec}
		}
		if m.St != rj.MOk || !m.RV.IsValid() || m.RV.Kind() != reflect.Func {
			if m.St == rj.MOk {
				return c06Res{st: rj.MUnspec} // calling a field / map entry that is not a function
			}
			if m.St == rj.MAbsent {
				return c06Res{st: rj.MUnspec}
			}
			return c06Res{st: rj.MErr}
		}
		var in []reflect.Value
		if s.arg != "" {
			in = append(in, reflect.ValueOf(s.arg))
		}
		if m.RV.Type().NumIn() != len(in) {
			return c06Res{st: rj.MErr}
		}
		out := m.RV.Call(in)
		return c06Res{st: rj.MOk, val: out[0]}
	case 's':
		d := v
		for d.Kind() == reflect.Ptr || d.Kind() == reflect.Interface {
			return c06Res{st: rj.MUnspec} // slicing through pointers is not part of the statement
		}
		switch d.Kind() {
		case reflect.Slice, reflect.String:
		case reflect.Array:
			if !d.CanAddr() {
				return c06Res{st: rj.MUnspec}
			}
		default:
			return c06Res{st: rj.MErr}
		}
		bound := func(b interface{}, def int) (int, rj.MStatus) {
			if b == nil {
				return def, rj.MOk
			}
			switch x := b.(type) {
			case float64:
				return int(x), rj.MOk
			case int:
				return x, rj.MOk
			}
			return 0, rj.MErr
		}
		lo, st1 := bound(s.lo, 0)
		hi, st2 := bound(s.hi, d.Len())
		if st1 != rj.MOk || st2 != rj.MOk {
			return c06Res{st: rj.MErr}
		}
		if d.Kind() == reflect.Slice && hi > d.Len() && hi <= d.Cap() {
			return c06Res{st: rj.MUnspec}
		}
		if lo < 0 || hi < lo || hi > d.Len() {
			return c06Res{st: rj.MErr}
		}
		return c06Res{st: rj.MOk, val: d.Slice(lo, hi)}
	}
	return c06Res{st: rj.MUnspec}
}

func c06Scalar(v reflect.Value) (string, bool) {
	switch v.Kind() {
	case reflect.String:
		return v.String(), true
	case reflect.Int, reflect.Int8, reflect.Int16, reflect.Int32, reflect.Int64:
		return fmt.Sprint(v.Int()), true
	case reflect.Uint, reflect.Uint8, reflect.Uint16, reflect.Uint32, reflect.Uint64:
		return fmt.Sprint(v.Uint()), true
	case reflect.Bool:
		return fmt.Sprint(v.Bool()), true
	}
	return "", false
}

func c06NotNil(r c06Res) bool {
	if r.st != rj.MOk || r.isNil || !r.val.IsValid() {
		return false
	}
	switch r.val.Kind() {
	case reflect.Chan, reflect.Func, reflect.Interface, reflect.Map, reflect.Ptr, reflect.Slice:
		return !r.val.IsNil()
	}
	return true
}

type c06Path struct {
	root  int
	steps []int
}

func (p c06Path) src(steps []c06Step) string {
	r := c06Roots[p.root]
	s := r.src
	for i, k := range p.steps {
		st := steps[k].src
		if i == 0 && r.kind == "ctx" && strings.HasPrefix(st, ".") {
			s = st // ".Name" on the context
			continue
		}
		s += st
	}
	return s
}

func c06Eval(p c06Path, steps []c06Step, rootVal interface{}) c06Res {
	r := c06Roots[p.root]
	var cur c06Res
	switch {
	case r.kind == "undef":
		cur = c06Res{st: rj.MErr}
	case rootVal == nil:
		cur = c06Res{st: rj.MOk, isNil: true}
	default:
		rv := reflect.ValueOf(rootVal)
		cur = c06Res{st: rj.MOk, val: rv}
		if (rv.Kind() == reflect.Ptr || rv.Kind() == reflect.Interface) && rv.IsNil() {
			cur.isNil = true
		}
	}
	for i, k := range p.steps {
		if i > 0 && steps[p.steps[i-1]].kind == 's' {
			return c06Res{st: rj.MUnspec} // the grammar has no postfix operators after a slice expression
		}
		cur = c06Apply(cur, steps[k])
	}
	return cur
}

type c06Case struct {
	Use    string `json:"use"`
	Source string `json:"source"`
	Root   string `json:"root"`
	Want   string `json:"want"`
	Got    string `json:"got,omitempty"`
	Err    string `json:"error,omitempty"`
}

func c06Exec(src string, roots map[int]interface{}) (out string, err error, pan interface{}) {
	ld := jet.NewInMemLoader()
	ld.Set("/t.jet", src)
	set := jet.NewSet(ld)
	vars := jet.VarMap{}
	var data interface{}
	for i, r := range c06Roots {
		v, ok := roots[i]
		if !ok {
			continue
		}
		switch r.kind {
		case "var":
			vars.Set(r.src, v)
		case "global":
			set.AddGlobal(r.src, v)
		case "ctx":
			data = v
		}
	}
	vars.Set("kName", "Name").Set("kK", "k").Set("neg", -1).Set("iv", 1).Set("i7", 7).Set("uv", uint(1)).Set("nilv", nil)
	var buf bytes.Buffer
	func() {
		defer func() {
			if x := recover(); x != nil {
				pan = x
			}
		}()
		t, e := set.GetTemplate("/t.jet")
		if e != nil {
			err = fmt.Errorf("parse: %w", e)
			return
		}
		err = t.Execute(&buf, vars, data)
	}()
	return buf.String(), err, pan
}

// c06Paths enumerates root x step sequences of length 1..maxLen.
func c06Count(nSteps, maxLen int) int64 {
	n := int64(0)
	p := int64(1)
	for l := 0; l <= maxLen; l++ {
		n += p
		p *= int64(nSteps)
	}
	return n * int64(len(c06Roots))
}

func c06PathAt(i int64, nSteps, maxLen int) c06Path {
	root := int(i % int64(len(c06Roots)))
	i /= int64(len(c06Roots))
	p := int64(1)
	for l := 0; l <= maxLen; l++ {
		if i < p {
			st := make([]int, l)
			for j := 0; j < l; j++ {
				st[j] = int(i % int64(nSteps))
				i /= int64(nSteps)
			}
			return c06Path{root: root, steps: st}
		}
		i -= p
		p *= int64(nSteps)
	}
	panic("path index")
}

func c06Roots1(p c06Path) (map[int]interface{}, interface{}) {
	v := c06Roots[p.root].mk()
	return map[int]interface{}{p.root: v}, v
}

// ---- C06: render every path ----
func C06(r *core.Run) map[string]interface{} {
	steps := c06Steps()
	maxLen := 2
	if r.Thorough() {
		maxLen = 3
	}
	total := c06Count(len(steps), maxLen)
	r.Rule = "every access path of <= N steps over the step alphabet (field, [\"name\"], [var], integer/uint/float/nil/bool/undefined indexes, method calls, slices with each bound omitted / in range / out of range / wrong kind) from 11 roots (value, pointer, nil embedded pointer, global, context by pointer and by value, early-shadow struct, map, pointer to interface, nil, undefined) into an 8-type universe; oracle: independent reflective resolver; non-trivial = path of >=1 step whose outcome is specified; distinct = distinct (outcome class, value)"
	r.ParallelFor(total, func(i int64) {
		p := c06PathAt(i, len(steps), maxLen)
		if len(p.steps) == 0 {
			return
		}
		roots, rootVal := c06Roots1(p)
		want := c06Eval(p, steps, rootVal)
		if want.st == rj.MUnspec {
			r.Skip("outcome not fixed by the statement")
			return
		}
		src := "[{{ " + p.src(steps) + " }}]"
		out, err, pan := c06Exec(src, roots)
		r.Eval()
		cs := c06Case{Use: "render", Source: src, Root: fmt.Sprintf("%d:%s", p.root, c06Roots[p.root].src), Got: out}
		if err != nil {
			cs.Err = err.Error()
		}
		bad := func(what string) {
			cs.Want = what
			r.Violate(core.Violation{Sig: c06Classify(p, steps, want, out, err, pan), What: fmt.Sprintf("%s (root %s): %s; got output %q error %v panic %v", src, cs.Root, what, out, err, pan), Case: cs})
		}
		switch {
		case pan != nil:
			bad("Execute panicked")
		case want.st == rj.MErr:
			if err == nil {
				bad("the statement makes this access an error")
			} else {
				r.Distinct("err")
			}
		case err != nil:
			bad("access is valid, Execute failed")
		case want.isNil || !want.val.IsValid():
			if out != "[]" && !(want.storedNil && out == "[&lt;nil&gt;]") {
				bad("value is nil, expected nothing rendered")
			} else {
				r.Distinct("nil")
			}
		default:
			if s, ok := c06Scalar(want.val); ok {
				if out != "["+rj.HTMLEscape(s)+"]" {
					bad(fmt.Sprintf("stored value is %q", s))
				} else {
					r.Distinct("v:" + s)
				}
			} else {
				// composite values: their length and, for slices/arrays of scalars, their printed form
				v := want.val
				for v.Kind() == reflect.Ptr && !v.IsNil() {
					v = v.Elem()
				}
				switch v.Kind() {
				case reflect.Slice, reflect.Array, reflect.Map, reflect.String:
					if v.Kind() != reflect.Map || !v.IsNil() {
						roots2, _ := c06Roots1(p)
						lout, lerr, lpan := c06Exec("[{{ len("+p.src(steps)+") }}]", roots2)
						r.Eval()
						if lpan != nil || lerr != nil || lout != fmt.Sprintf("[%d]", v.Len()) {
							cs.Use, cs.Source, cs.Want, cs.Got = "len", "[{{ len("+p.src(steps)+") }}]", fmt.Sprintf("[%d]", v.Len()), lout
							r.Violate(core.Violation{What: fmt.Sprintf("len(%s) (root %s) renders %q (error %v panic %v), the stored value has length %d", p.src(steps), cs.Root, lout, lerr, lpan, v.Len()), Case: cs})
							return
						}
					}
				}
				if (v.Kind() == reflect.Slice || v.Kind() == reflect.Array) && v.Type().Elem().Kind() != reflect.Uint8 {
					switch v.Type().Elem().Kind() {
					case reflect.String, reflect.Int:
						if want2 := "[" + rj.HTMLEscape(fmt.Sprint(v.Interface())) + "]"; out != want2 && v.CanInterface() {
							bad(fmt.Sprintf("stored value prints as %q", fmt.Sprint(v.Interface())))
							return
						}
					}
				}
				r.Distinct("composite:" + want.val.Type().String())
			}
		}
		if i%4099 == 0 {
			r.Sample(cs)
		}
	})
	return map[string]interface{}{"steps": len(steps), "roots": len(c06Roots), "max_path_len": maxLen, "traces_validated_against_impl": r.Evals()}
}

func c06Classify(p c06Path, steps []c06Step, want c06Res, out string, err error, pan interface{}) string {
	return ""
}

// ---- C17: isset over the same paths ----
func C17(r *core.Run) map[string]interface{} {
	steps := c06Steps()
	maxLen := 2
	if r.Thorough() {
		maxLen = 3
	}
	r.Rule = "isset(p) for every access path of <= N steps of the C06 universe that is an identifier/field/index chain; isset(p, q) for every pair of paths of <= 1 step (thorough: one side <= 2 steps); p | isset, p | isset(_), p | isset(x, _) and p | isset(q) for every p whose evaluation is defined; v, ok := m[k] and v, ok = m[k] for every map of the universe x 8 keys; oracle: never fails, true iff every argument resolves to a non-nil value; distinct = distinct (form, verdict) per path class"
	total := c06Count(len(steps), maxLen)
	chain := func(p c06Path) bool {
		for _, k := range p.steps {
			if steps[k].kind == 'c' || steps[k].kind == 's' {
				return false
			}
		}
		return c06Roots[p.root].kind != "undef" || len(p.steps) >= 0
	}
	run := func(use, src string, roots map[int]interface{}, want string, wantErr bool, key string) {
		out, err, pan := c06Exec(src, roots)
		r.Eval()
		cs := c06Case{Use: use, Source: src, Want: want, Got: out}
		if err != nil {
			cs.Err = err.Error()
		}
		if pan != nil || (err != nil) != wantErr || (!wantErr && out != want) {
			r.Violate(core.Violation{Sig: c17Classify(use, src, want, out, err, pan), What: fmt.Sprintf("%s: want %q, got %q error %v panic %v", src, want, out, err, pan), Case: cs})
			return
		}
		r.Distinct(use + ":" + want + ":" + key)
	}
	// single paths, direct and piped
	r.ParallelFor(total, func(i int64) {
		p := c06PathAt(i, len(steps), maxLen)
		if !chain(p) {
			return
		}
		roots, rootVal := c06Roots1(p)
		want := c06Eval(p, steps, rootVal)
		if want.st == rj.MUnspec {
			r.Skip("outcome not fixed by the statement")
			return
		}
		src := p.src(steps)
		run("isset", "[{{ isset("+src+") }}]", roots, fmt.Sprintf("[%v]", c06NotNil(want)), false, fmt.Sprint(want.st))
		if want.st == rj.MOk {
			roots2, _ := c06Roots1(p)
			run("piped", "[{{ "+src+" | isset }}]", roots2, fmt.Sprintf("[%v]", c06NotNil(want)), false, "")
			roots3, _ := c06Roots1(p)
			run("piped-slot", "[{{ "+src+" | isset(_) }}]", roots3, fmt.Sprintf("[%v]", c06NotNil(want)), false, "")
			roots4, _ := c06Roots1(p)
			run("piped-slot2", "[{{ "+src+" | isset(kName, _) }}]", roots4, fmt.Sprintf("[%v]", c06NotNil(want)), false, "")
		}
		if i%4099 == 0 {
			r.Sample(map[string]string{"source": "{{ isset(" + src + ") }}", "want": fmt.Sprint(c06NotNil(want))})
		}
	})
	// pairs
	small := c06Count(len(steps), 1)
	big := small
	if r.Thorough() {
		big = c06Count(len(steps), 2)
	}
	r.ParallelFor(small*big, func(i int64) {
		p := c06PathAt(i%small, len(steps), 1)
		q := c06PathAt(i/small, len(steps), 2)
		if !chain(p) || !chain(q) {
			return
		}
		if c06Roots[p.root].src == c06Roots[q.root].src && p.root != q.root {
			return // two different roots spelt the same ('.')
		}
		roots := map[int]interface{}{p.root: c06Roots[p.root].mk()}
		if _, ok := roots[q.root]; !ok {
			roots[q.root] = c06Roots[q.root].mk()
		}
		wp, wq := c06Eval(p, steps, roots[p.root]), c06Eval(q, steps, roots[q.root])
		if wp.st == rj.MUnspec || wq.st == rj.MUnspec {
			r.Skip("outcome not fixed by the statement")
			return
		}
		want := c06NotNil(wp) && c06NotNil(wq)
		run("pair", "[{{ isset("+p.src(steps)+", "+q.src(steps)+") }}]", roots, fmt.Sprintf("[%v]", want), false, "")
		if wp.st == rj.MOk && len(q.steps) <= 1 {
			roots2 := map[int]interface{}{p.root: c06Roots[p.root].mk()}
			if _, ok := roots2[q.root]; !ok {
				roots2[q.root] = c06Roots[q.root].mk()
			}
			run("pair-piped", "[{{ "+p.src(steps)+" | isset("+q.src(steps)+") }}]", roots2, fmt.Sprintf("[%v]", want), false, "")
		}
	})
	// v, ok := m[k]
	maps := []string{"rp.M", "rp.MI", "rp.MA", "rp.MS", "rp.NilM", "rm"}
	keys := []struct {
		src string
		v   interface{}
	}{{`"k"`, "k"}, {`"nilval"`, "nilval"}, {`"absent"`, "absent"}, {"7", float64(7)}, {"8", float64(8)}, {"i7", 7}, {`"e"`, "e"}, {"kName", "Name"}, {"true", true}}
	for mi, m := range maps {
		for _, k := range keys {
			for _, decl := range []bool{true, false} {
				rootIx := 1
				if m == "rm" {
					rootIx = 7
				}
				rootVal := c06Roots[rootIx].mk()
				mv := reflect.ValueOf(rootVal)
				if m != "rm" {
					mv = mv.Elem().FieldByName(m[3:])
				}
				res := rj.IndexV(mv, k.v)
				var wantOK string
				wantErr := false
				switch res.St {
				case rj.MOk:
					wantOK = "true"
				case rj.MAbsent:
					wantOK = "false"
				case rj.MErr:
					wantErr = true
				default:
					r.Skip("map lookup outcome not fixed by the statement")
					continue
				}
				src := "{{ v, ok := " + m + "[" + k.src + "] }}[{{ ok }}]"
				if !decl {
					src = `{{ v := "" }}{{ ok := "" }}{{ v, ok = ` + m + "[" + k.src + "] }}[{{ ok }}]"
				}
				run("v,ok", src, map[int]interface{}{rootIx: rootVal}, "["+wantOK+"]", wantErr, fmt.Sprint(mi))
			}
		}
	}
	return map[string]interface{}{"steps": len(steps), "roots": len(c06Roots), "max_path_len": maxLen, "traces_validated_against_impl": r.Evals()}
}

func c17Classify(use, src, want, out string, err error, pan interface{}) string {
	return ""
}

func c06Replay(raw json.RawMessage) string {
	var cs c06Case
	if err := json.Unmarshal(raw, &cs); err != nil {
		return err.Error()
	}
	roots := map[int]interface{}{}
	for i := range c06Roots {
		if c06Roots[i].kind == "ctx" {
			continue
		}
		roots[i] = c06Roots[i].mk()
	}
	if cs.Root != "" {
		var ix int
		fmt.Sscanf(cs.Root, "%d:", &ix)
		roots[ix] = c06Roots[ix].mk()
	} else {
		roots[4] = c06Roots[4].mk()
	}
	out, err, pan := c06Exec(cs.Source, roots)
	if pan != nil {
		return fmt.Sprintf("%s panics: %v", cs.Source, pan)
	}
	switch cs.Use {
	case "render":
		if strings.Contains(cs.Want, "error") && err == nil {
			return fmt.Sprintf("%s renders %q, %s", cs.Source, out, cs.Want)
		}
		if strings.HasPrefix(cs.Want, "stored value is") && !strings.Contains(cs.Want, fmt.Sprintf("%q", strings.Trim(out, "[]"))) {
			return fmt.Sprintf("%s renders %q (error %v), %s", cs.Source, out, err, cs.Want)
		}
		if strings.Contains(cs.Want, "valid") && err != nil {
			return fmt.Sprintf("%s fails: %v", cs.Source, err)
		}
		if strings.Contains(cs.Want, "nil") && out != "[]" {
			return fmt.Sprintf("%s renders %q, %s", cs.Source, out, cs.Want)
		}
		return ""
	default:
		if err != nil || out != cs.Want {
			return fmt.Sprintf("%s renders %q (error %v), want %q", cs.Source, out, err, cs.Want)
		}
	}
	return ""
}

func init() {
	Registry["C06"] = C06
	Registry["C17"] = C17
	Replayers["C06"] = c06Replay
	Replayers["C17"] = c06Replay
}
