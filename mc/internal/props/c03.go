package props

import (
	"bytes"
	"encoding/json"
	"fmt"
	"strings"

	"github.com/CloudyKit/jet/v6"

	"verif/mc/internal/core"
)

// C03 — literal text is copied verbatim; only trim markers and comments remove bytes.
// Text-level reference over an atom list (never over the source).

type c03Cfg struct {
	Name           string
	L, R, LC, RC   string
}

var c03Cfgs = []c03Cfg{
	{"default", "{{", "}}", "{*", "*}"},
	{"brackets", "[[", "]]", "{*", "*}"},
	{"html-comment", "{{", "}}", "<!--", "-->"},
	{"asp", "<%", "%>", "{*", "*}"},
	{"multibyte", "«", "»", "{*", "*}"},
	{"percent-hash", "{%", "%}", "{#", "#}"},
	{"single-char", "{", "}", "(*", "*)"},
}

type c03Atom struct {
	Kind  byte   // 't' text, 'a' action, 'c' comment, 'i' import clause
	S     string // text content / comment body / action inner spacing
	LTrim bool
	RTrim bool
}

func (a c03Atom) src(c c03Cfg) string {
	switch a.Kind {
	case 't':
		return a.S
	case 'c':
		return c.LC + a.S + c.RC
	case 'i':
		return c.L + `import "/lib.jet"` + c.R
	case 'n':
		return c.L + "-" + a.S + "1" + c.R
	}
	s := c.L
	if a.LTrim {
		s += "- "
	} else {
		s += a.S
	}
	s += `"M"`
	if a.RTrim {
		s += " -"
	} else {
		s += a.S
	}
	return s + c.R
}

func c03Alphabet(c c03Cfg) []c03Atom {
	var as []c03Atom
	texts := []string{"a", " ", "\n", "\r\n", "\t", " \t\r\n", "{", "}", "*", "-", "é", "à", "\u00a0", "\u0085x\u0085", "\v", "\x00z", "<", c.L[:1], c.LC[:1], c.R[:1]}
	seen := map[string]bool{}
	for _, t := range texts {
		if !seen[t] {
			seen[t] = true
			as = append(as, c03Atom{Kind: 't', S: t})
		}
	}
	for _, lt := range []bool{false, true} {
		for _, rt := range []bool{false, true} {
			for _, sp := range []string{"", " "} {
				if lt && rt && sp == " " {
					continue
				}
				as = append(as, c03Atom{Kind: 'a', S: sp, LTrim: lt, RTrim: rt})
			}
		}
	}
	// a minus that is not a trim marker (the marker is "- " with a space): -1, whatever white space follows the dash
	for _, sp := range []string{"", "\n", "\t"} {
		as = append(as, c03Atom{Kind: 'n', S: sp})
	}
	bodies := []string{"", " c ", " " + c.L + " x " + c.R + " ", "\n"}
	// bodies that complete a closing marker overlapping the opening one ("{*" + "}b": the "*}" seen across the
	// boundary is not a closing marker)
	for k := 1; k < len(c.LC) && k < len(c.RC); k++ {
		if strings.HasSuffix(c.LC, c.RC[:k]) {
			bodies = append(bodies, c.RC[k:]+"b")
		}
	}
	for _, body := range bodies {
		as = append(as, c03Atom{Kind: 'c', S: body})
	}
	return as
}

func isWS(b byte) bool { return b == ' ' || b == '\t' || b == '\r' || b == '\n' }

// c03Ref renders the atom list per the statement.
func c03Ref(atoms []c03Atom) string {
	var out strings.Builder
	// whitespace-only text next to leading import clauses is dropped
	hdrEnd, sawClause := 0, false
	for hdrEnd < len(atoms) {
		a := atoms[hdrEnd]
		if a.Kind == 'i' {
			sawClause = true
		} else if a.Kind == 't' && strings.Trim(a.S, " \t\r\n") == "" {
		} else if a.Kind == 'c' {
		} else {
			break
		}
		hdrEnd++
	}
	if !sawClause {
		hdrEnd = 0
	}
	for i := 0; i < len(atoms); {
		a := atoms[i]
		switch a.Kind {
		case 'a':
			out.WriteString("M")
			i++
		case 'n':
			out.WriteString("-1")
			i++
		case 'c', 'i':
			i++
		case 't':
			j := i
			var run strings.Builder
			for j < len(atoms) && atoms[j].Kind == 't' {
				run.WriteString(atoms[j].S)
				j++
			}
			t := run.String()
			if i > 0 && atoms[i-1].Kind == 'a' && atoms[i-1].RTrim {
				k := 0
				for k < len(t) && isWS(t[k]) {
					k++
				}
				t = t[k:]
			}
			if j < len(atoms) && atoms[j].Kind == 'a' && atoms[j].LTrim {
				k := len(t)
				for k > 0 && isWS(t[k-1]) {
					k--
				}
				t = t[:k]
			}
			if !(i < hdrEnd && strings.Trim(run.String(), " \t\r\n") == "") {
				out.WriteString(t)
			}
			i = j
		}
	}
	return out.String()
}

// c03Ambiguous: an independent scan of the concatenated source must find
// delimiter/comment markers exactly at the intended atom boundaries.
func c03Ambiguous(atoms []c03Atom, c c03Cfg) bool {
	var src strings.Builder
	type span struct{ lo, hi int; kind byte }
	var spans []span
	for _, a := range atoms {
		lo := src.Len()
		src.WriteString(a.src(c))
		spans = append(spans, span{lo, src.Len(), a.Kind})
	}
	s := src.String()
	for _, sp := range spans {
		switch sp.kind {
		case 't':
			for p := sp.lo; p < sp.hi; p++ {
				if strings.HasPrefix(s[p:], c.L) || strings.HasPrefix(s[p:], c.LC) {
					return true
				}
			}
		case 'c':
			// both markers at the same place, or the comment closing early
			if strings.HasPrefix(s[sp.lo:], c.L) {
				return true
			}
			body := s[sp.lo+len(c.LC):]
			if strings.Index(body, c.RC) != sp.hi-sp.lo-len(c.LC)-len(c.RC) {
				return true
			}
		case 'a', 'i', 'n':
			if strings.HasPrefix(s[sp.lo:], c.LC) {
				return true
			}
			// the action must close at its own right delimiter, and what follows must not extend it
			inner := s[sp.lo+len(c.L):]
			first := strings.Index(inner, c.R)
			if first != sp.hi-sp.lo-len(c.L)-len(c.R) {
				return true
			}
			// a right delimiter made longer by the following text (e.g. "}}" + "}") is still found first: fine
		}
	}
	return false
}

type c03Case struct {
	Cfg    string   `json:"config"`
	Source string   `json:"source"`
	Atoms  []string `json:"atoms"`
	Want   string   `json:"want"`
	Got    string   `json:"got,omitempty"`
	Err    string   `json:"error,omitempty"`
}

func c03Run(atoms []c03Atom, c c03Cfg) (cs c03Case, ok bool) {
	var src strings.Builder
	for _, a := range atoms {
		src.WriteString(a.src(c))
		cs.Atoms = append(cs.Atoms, string(a.Kind)+":"+a.src(c))
	}
	cs.Cfg, cs.Source, cs.Want = c.Name, src.String(), c03Ref(atoms)
	ld := jet.NewInMemLoader()
	ld.Set("/t.jet", cs.Source)
	ld.Set("/lib.jet", c.L+"block zz()"+c.R+"Z"+c.L+"end"+c.R)
	var opts []jet.Option
	if c.L != "{{" {
		opts = append(opts, jet.WithDelims(c.L, c.R))
	}
	if c.LC != "{*" {
		opts = append(opts, jet.WithCommentDelims(c.LC, c.RC))
	}
	set := jet.NewSet(ld, opts...)
	var buf bytes.Buffer
	func() {
		defer func() {
			if x := recover(); x != nil {
				cs.Err = fmt.Sprint("panic: ", x)
			}
		}()
		t, err := set.GetTemplate("/t.jet")
		if err != nil {
			cs.Err = err.Error()
			return
		}
		if err := t.Execute(&buf, nil, nil); err != nil {
			cs.Err = err.Error()
		}
	}()
	cs.Got = buf.String()
	return cs, cs.Err == "" && cs.Got == cs.Want
}

// c03Classify recognises the recorded findings by their exact wrong behaviour.
func c03Classify(atoms []c03Atom, c c03Cfg, cs c03Case) string {
	return ""
}

func c03Seq(alpha []c03Atom, code int64, n int) []c03Atom {
	out := make([]c03Atom, n)
	for j := 0; j < n; j++ {
		out[j] = alpha[code%int64(len(alpha))]
		code /= int64(len(alpha))
	}
	return out
}

func C03(r *core.Run) map[string]interface{} {
	maxLen := 4
	cfgs := c03Cfgs
	if r.Thorough() {
		maxLen = 5
	}
	r.Rule = "every sequence of <= N atoms (text letters incl. lone delimiter bytes and all whitespace mixes; actions in 7 trim/spacing variants; 4 comment bodies plus one per overlap of the comment markers) under each delimiter configuration, plus header sequences with import clauses; a case counts only if an independent scan finds the markers exactly at the atom boundaries; non-trivial = contains a trim marker or comment; distinct = distinct (config, expected output)"
	total := int64(0)
	for _, c := range cfgs {
		alpha := c03Alphabet(c)
		k := int64(len(alpha))
		for n := 0; n <= maxLen; n++ {
			cnt := pow(k, int64(n))
			total += cnt
			c, n := c, n
			r.ParallelFor(cnt, func(i int64) {
				atoms := c03Seq(alpha, i, n)
				c03Do(r, atoms, c, i)
			})
		}
		// 4-atom (thorough: 5-atom) sequences over a reduced alphabet that keeps every atom kind
		red := c03Reduced(alpha)
		kr := int64(len(red))
		cnt := pow(kr, int64(maxLen+1))
		total += cnt
		r.ParallelFor(cnt, func(i int64) {
			c03Do(r, c03Seq(red, i, maxLen+1), c, i)
		})
		// headers: 1-2 import clauses with whitespace-only text / comments around them, then content
		hdr := []c03Atom{{Kind: 'i'}, {Kind: 't', S: " "}, {Kind: 't', S: "\n"}, {Kind: 'c', S: " c "}}
		tail := []c03Atom{{Kind: 't', S: "x"}, {Kind: 'a'}, {Kind: 't', S: " y "}, {Kind: 'a', LTrim: true}}
		for n := 1; n <= 4; n++ {
			cnt := pow(4, int64(n)) * 16
			total += cnt
			n := n
			r.ParallelFor(cnt, func(i int64) {
				atoms := c03Seq(hdr, i/16, n)
				has := false
				for _, a := range atoms {
					if a.Kind == 'i' {
						has = true
					}
				}
				if !has {
					return
				}
				atoms = append(atoms, tail[i%4], tail[(i/4)%4])
				c03Do(r, atoms, c, i)
			})
		}
	}
	return map[string]interface{}{"configs": len(cfgs), "max_atoms": maxLen + 1, "alphabet": len(c03Alphabet(c03Cfgs[0])), "sequences_generated": total, "traces_validated_against_impl": r.Evals()}
}

func c03Reduced(alpha []c03Atom) []c03Atom {
	var red []c03Atom
	for _, a := range alpha {
		switch a.Kind {
		case 't':
			if a.S == "a" || a.S == " " || a.S == " \t\r\n" {
				red = append(red, a)
			}
		case 'a':
			if a.S == "" {
				red = append(red, a)
			}
		case 'c':
			if a.S == " c " {
				red = append(red, a)
			}
		}
	}
	return red
}

func c03Do(r *core.Run, atoms []c03Atom, c c03Cfg, i int64) {
	if c03Ambiguous(atoms, c) {
		r.Skip("marker not at an atom boundary")
		return
	}
	// an import clause after content is a (correctly reported) parse error: not part of this space
	cs, ok := c03Run(atoms, c)
	r.Eval()
	if !ok {
		r.Violate(core.Violation{Sig: c03Classify(atoms, c, cs), What: fmt.Sprintf("[%s] %q renders %q (error %q), reference %q", c.Name, cs.Source, cs.Got, cs.Err, cs.Want), Case: cs})
		return
	}
	nt := false
	for _, a := range atoms {
		if a.Kind == 'c' || a.LTrim || a.RTrim {
			nt = true
		}
	}
	if nt {
		r.Distinct(c.Name + "\x00" + cs.Want)
	}
	if i%7919 == 0 {
		r.Sample(cs)
	}
}

func init() {
	Registry["C03"] = C03
	Replayers["C03"] = func(raw json.RawMessage) string {
		var cs c03Case
		if err := json.Unmarshal(raw, &cs); err != nil {
			return err.Error()
		}
		var cfg c03Cfg
		for _, c := range c03Cfgs {
			if c.Name == cs.Cfg {
				cfg = c
			}
		}
		// rebuild the atom list from its recorded spelling
		var atoms []c03Atom
		for _, a := range cs.Atoms {
			kind, src := a[0], a[2:]
			found := false
			cands := append(c03Alphabet(cfg), c03Atom{Kind: 'i'}, c03Atom{Kind: 't', S: "x"}, c03Atom{Kind: 't', S: " y "})
			for _, c := range cands {
				if c.Kind == kind && c.src(cfg) == src {
					atoms = append(atoms, c)
					found = true
					break
				}
			}
			if !found {
				return "cannot rebuild atom " + a
			}
		}
		got, ok := c03Run(atoms, cfg)
		if ok {
			return ""
		}
		return fmt.Sprintf("%q renders %q (error %q), reference %q", got.Source, got.Got, got.Err, got.Want)
	}
}
