package props

import (
	"bytes"
	"encoding/json"
	"fmt"
	"html"
	"net/url"
	"reflect"
	"strings"

	"github.com/CloudyKit/jet/v6"

	"verif/mc/internal/core"
	rj "verif/mc/internal/refjet"
)

// C14 — pipelines, prefix calls and piped-argument slots are equivalent to plain
// calls; built-ins compute what the Go function they expose computes.

type MyInt int

type c14Obj struct{ tag string }

func (o c14Obj) MV(x string, a int) string  { return fmt.Sprintf("%s.MV(%s,%d)", o.tag, x, a) }
func (o *c14Obj) MP(x string, a int) string { return fmt.Sprintf("%s.MP(%s,%d)", o.tag, x, a) }

type c14Callable struct {
	name   string // spelling in the template
	fixed  []reflect.Kind
	vari   reflect.Kind // Invalid = not variadic
	jetFn  bool
}

var c14Callables = []c14Callable{
	{"f0", nil, reflect.Invalid, false}, // no parameters: every argument, piped or written, is one too many
	{"obj.M0", nil, reflect.Invalid, false},
	{"f1", []reflect.Kind{reflect.String}, reflect.Invalid, false},
	{"f2", []reflect.Kind{reflect.String, reflect.Int}, reflect.Invalid, false},
	{"f3", []reflect.Kind{reflect.String, reflect.Int, reflect.Float64}, reflect.Invalid, false},
	{"fv0", nil, reflect.String, false},
	{"fv1", []reflect.Kind{reflect.String}, reflect.Int, false},
	{"fv2", []reflect.Kind{reflect.String, reflect.Int}, reflect.String, false},
	{"obj.MV", []reflect.Kind{reflect.String, reflect.Int}, reflect.Invalid, false},
	{"pobj.MP", []reflect.Kind{reflect.String, reflect.Int}, reflect.Invalid, false},
	{"jf", nil, reflect.Interface, true},
}

type c14Arg struct {
	src string
	v   interface{}
	log string // what evaluating this argument records in the call log ("" = nothing): nested calls
}

// alternatives per parameter kind: spellings that must be accepted (with conversion) and ones that must fail
func c14Alts(k reflect.Kind) (ok []c14Arg, bad []c14Arg) {
	switch k {
	case reflect.String:
		return []c14Arg{{`"s"`, "s", ""}, {"sv", "var", ""}, {`up("n")`, "up<n>", "up<n>"}}, []c14Arg{{"nil", nil, ""}, {"sl", []int{1}, ""}}
	case reflect.Int:
		return []c14Arg{{"i3", 3, ""}, {"4", 4.0, ""}, {"mi", MyInt(5), ""}, {"u6", uint8(6), ""}, {"inc(2)", 3, "inc(2)"}}, []c14Arg{{`"str"`, "str", ""}, {"nil", nil, ""}}
	case reflect.Float64:
		return []c14Arg{{"2.5", 2.5, ""}, {"i3", 3, ""}, {"f32", float32(1.5), ""}, {"inc(2)", 3, "inc(2)"}}, []c14Arg{{`"str"`, "str", ""}}
	case reflect.Interface:
		return []c14Arg{{`"s"`, "s", ""}, {"i3", 3, ""}, {"2.5", 2.5, ""}, {"true", true, ""}, {`up("n")`, "up<n>", "up<n>"}}, nil
	}
	return nil, nil
}

func c14Convert(v interface{}, k reflect.Kind) (reflect.Value, bool) {
	if v == nil {
		return reflect.Value{}, false
	}
	rv := reflect.ValueOf(v)
	var t reflect.Type
	switch k {
	case reflect.String:
		t = reflect.TypeOf("")
		if rv.Kind() != reflect.String {
			return reflect.Value{}, false
		}
	case reflect.Int:
		t = reflect.TypeOf(0)
		if !(rv.Kind() >= reflect.Int && rv.Kind() <= reflect.Float64) {
			return reflect.Value{}, false
		}
	case reflect.Float64:
		t = reflect.TypeOf(0.0)
		if !(rv.Kind() >= reflect.Int && rv.Kind() <= reflect.Float64) {
			return reflect.Value{}, false
		}
	case reflect.Interface:
		return rv, true
	}
	return rv.Convert(t), true
}

// c14Direct is the direct Go invocation of the callable with the given argument values.
func c14Direct(c c14Callable, args []c14Arg) (out string, ok bool) {
	if c.jetFn {
		var parts []string
		for _, a := range args {
			parts = append(parts, fmt.Sprint(a.v))
		}
		return "jf[" + strings.Join(parts, " ") + "]", true
	}
	if len(args) < len(c.fixed) || (c.vari == reflect.Invalid && len(args) != len(c.fixed)) {
		return "", false
	}
	var conv []interface{}
	for i, a := range args {
		k := c.vari
		if i < len(c.fixed) {
			k = c.fixed[i]
		}
		rv, ok := c14Convert(a.v, k)
		if !ok {
			return "", false
		}
		conv = append(conv, rv.Interface())
	}
	return fmt.Sprintf("%s(%s)", c.name, strings.Trim(fmt.Sprint(conv), "[]")), true
}

func c14Vars(log *[]string) jet.VarMap {
	rec := func(s string) string { *log = append(*log, s); return s }
	v := jet.VarMap{}
	v.Set("f0", func() string { return rec("f0()") })
	v.Set("f1", func(x string) string { return rec(fmt.Sprintf("f1(%s)", x)) })
	v.Set("f2", func(x string, a int) string { return rec(fmt.Sprintf("f2(%s %d)", x, a)) })
	v.Set("f3", func(x string, a int, b float64) string { return rec(fmt.Sprintf("f3(%s %d %v)", x, a, b)) })
	v.Set("fv0", func(r ...string) string { return rec(fmt.Sprintf("fv0(%s)", strings.Join(r, " "))) })
	v.Set("fv1", func(x string, r ...int) string {
		return rec(fmt.Sprintf("fv1(%s)", strings.Trim(fmt.Sprint(append([]interface{}{x}, toIfaces(r)...)), "[]")))
	})
	v.Set("fv2", func(x string, a int, r ...string) string {
		return rec(fmt.Sprintf("fv2(%s)", strings.Trim(fmt.Sprint(append([]interface{}{x, a}, toIfaces(r)...)), "[]")))
	})
	v.Set("obj", c14RecObj{c14Obj{"obj"}, log})
	v.Set("pobj", &c14RecObj{c14Obj{"pobj"}, log})
	v.SetFunc("jf", func(a jet.Arguments) reflect.Value {
		var parts []string
		for i := 0; i < a.NumOfArguments(); i++ {
			parts = append(parts, fmt.Sprint(a.Get(i)))
		}
		return reflect.ValueOf(rec("jf[" + strings.Join(parts, " ") + "]"))
	})
	v.Set("up", func(s string) string { return rec("up<" + s + ">") })
	v.Set("inc", func(i int) int { rec(fmt.Sprintf("inc(%d)", i)); return i + 1 })
	v.Set("sv", "var").Set("i3", 3).Set("mi", MyInt(5)).Set("u6", uint8(6)).Set("f32", float32(1.5)).Set("sl", []int{1})
	return v
}

type c14RecObj struct {
	c14Obj
	log *[]string
}

func (o c14RecObj) MV(x string, a int) string {
	s := fmt.Sprintf("obj.MV(%s %d)", x, a)
	*o.log = append(*o.log, s)
	return s
}
func (o c14RecObj) M0() string {
	*o.log = append(*o.log, "obj.M0()")
	return "obj.M0()"
}
func (o *c14RecObj) MP(x string, a int) string {
	s := fmt.Sprintf("pobj.MP(%s %d)", x, a)
	*o.log = append(*o.log, s)
	return s
}

func toIfaces(x interface{}) []interface{} {
	rv := reflect.ValueOf(x)
	out := make([]interface{}, rv.Len())
	for i := range out {
		out[i] = rv.Index(i).Interface()
	}
	return out
}

func c14Run(src string) (out string, log []string, err error, pan interface{}) {
	ld := jet.NewInMemLoader()
	ld.Set("/t.jet", src)
	set := jet.NewSet(ld, jet.WithSafeWriter(nil))
	var buf bytes.Buffer
	func() {
		defer func() {
			if x := recover(); x != nil {
				pan = x
			}
		}()
		t, e := set.GetTemplate("/t.jet")
		if e != nil {
			err = fmt.Errorf("parse: %w", e)
			return
		}
		err = t.Execute(&buf, c14Vars(&log), nil)
	}()
	return buf.String(), log, err, pan
}

// c14Forms spells the call f(args...) in every surface form.
func c14Forms(name string, args []c14Arg) map[string]string {
	srcs := make([]string, len(args))
	for i, a := range args {
		srcs[i] = a.src
	}
	j := func(s []string) string { return strings.Join(s, ", ") }
	forms := map[string]string{
		"call": fmt.Sprintf("{{ %s(%s) }}", name, j(srcs)),
	}
	if len(args) > 0 {
		forms["prefix"] = fmt.Sprintf("{{ %s: %s }}", name, j(srcs))
		forms["pipe-call"] = fmt.Sprintf("{{ %s | %s(%s) }}", srcs[0], name, j(srcs[1:]))
		if len(args) > 1 {
			forms["pipe-prefix"] = fmt.Sprintf("{{ %s | %s: %s }}", srcs[0], name, j(srcs[1:]))
		} else {
			forms["pipe-bare"] = fmt.Sprintf("{{ %s | %s }}", srcs[0], name)
		}
		for k := range args {
			with := append([]string{}, srcs...)
			with[k] = "_"
			forms[fmt.Sprintf("slot%d", k)] = fmt.Sprintf("{{ %s | %s(%s) }}", srcs[k], name, j(with))
			forms[fmt.Sprintf("slot%d-prefix", k)] = fmt.Sprintf("{{ %s | %s: %s }}", srcs[k], name, j(with))
		}
	}
	return forms
}

type c14Case struct {
	Form   string   `json:"form"`
	Source string   `json:"source"`
	Want   string   `json:"want"`
	WantErr bool    `json:"want_error"`
	WantLog []string `json:"want_log,omitempty"`
	Got    string   `json:"got,omitempty"`
	GotLog []string `json:"got_log,omitempty"`
	Err    string   `json:"error,omitempty"`
}

func c14Check(cs *c14Case) string {
	out, log, err, pan := c14Run(cs.Source)
	cs.Got, cs.GotLog = out, log
	if err != nil {
		cs.Err = err.Error()
	}
	if pan != nil {
		return fmt.Sprintf("%s panicked: %v", cs.Source, pan)
	}
	if cs.WantErr {
		if err == nil {
			return fmt.Sprintf("%s must be rejected, rendered %q", cs.Source, out)
		}
		return ""
	}
	if err != nil {
		return fmt.Sprintf("%s failed (%v); the plain call gives %q", cs.Source, err, cs.Want)
	}
	if out != cs.Want {
		return fmt.Sprintf("%s rendered %q; the direct Go invocation gives %q", cs.Source, out, cs.Want)
	}
	if cs.WantLog != nil && strings.Join(log, "|") != strings.Join(cs.WantLog, "|") {
		return fmt.Sprintf("%s called %v; each stage must be called exactly once, left to right: %v", cs.Source, log, cs.WantLog)
	}
	return ""
}

// argument tuples for a callable: all-ok combinations plus one bad argument at each position, plus count errors
func c14Tuples(c c14Callable, thorough bool) [][]c14Arg {
	var kinds []reflect.Kind
	kinds = append(kinds, c.fixed...)
	var out [][]c14Arg
	maxVar := 2
	if thorough {
		maxVar = 3
	}
	for nv := 0; nv <= maxVar; nv++ {
		if c.vari == reflect.Invalid && nv > 0 {
			break
		}
		ks := append([]reflect.Kind{}, kinds...)
		for i := 0; i < nv; i++ {
			ks = append(ks, c.vari)
		}
		// all ok combinations
		var rec func(i int, cur []c14Arg)
		rec = func(i int, cur []c14Arg) {
			if i == len(ks) {
				out = append(out, append([]c14Arg{}, cur...))
				return
			}
			ok, _ := c14Alts(ks[i])
			for _, a := range ok {
				rec(i+1, append(cur, a))
			}
		}
		rec(0, nil)
		// one bad argument at each position (others: first ok alternative)
		for pos := range ks {
			_, bad := c14Alts(ks[pos])
			for _, b := range bad {
				var t []c14Arg
				for i := range ks {
					if i == pos {
						t = append(t, b)
					} else {
						ok, _ := c14Alts(ks[i])
						t = append(t, ok[0])
					}
				}
				out = append(out, t)
			}
		}
	}
	if !c.jetFn {
		// wrong counts
		ok0 := func(k reflect.Kind) c14Arg { o, _ := c14Alts(k); return o[0] }
		if len(c.fixed) > 0 {
			var few []c14Arg
			for _, k := range c.fixed[:len(c.fixed)-1] {
				few = append(few, ok0(k))
			}
			out = append(out, few)
		}
		if c.vari == reflect.Invalid {
			var many []c14Arg
			for _, k := range c.fixed {
				many = append(many, ok0(k))
			}
			out = append(out, append(many, c14Arg{`"extra"`, "extra", ""}))
		}
	}
	return out
}

type c14Builtin struct {
	src  string
	want func() (string, bool) // expected output, ok=false means an error is expected
}

// c14Logs: expected call log of the recording helpers for some built-in cases (each argument evaluated once)
var c14Logs = map[string][]string{
	`{{ m := map(up("k"), up("v")) }}{{ m["up<k>"] }}`: {"up<k>", "up<v>"},
	`{{ s := slice(up("a"), up("b")) }}{{ s[1] }}`:     {"up<a>", "up<b>"},
	`{{ len(up("abc")) }}`:                             {"up<abc>"},
	`{{ isset(up) }}{{ lower(up("A")) }}`:              {"up<A>"},
}

func c14Builtins() []c14Builtin {
	strs := []string{"", "a", "Hello World", "  padded\t\n", "<b>&\"'", "äÖü ß", "a,b,,c", "aaa", "x=1&y=2 z", "UPPER lower"}
	var bs []c14Builtin
	q := func(s string) string { return fmt.Sprintf("%q", s) }
	for _, s := range strs {
		s := s
		bs = append(bs,
			c14Builtin{"{{ lower(" + q(s) + ") }}", func() (string, bool) { return strings.ToLower(s), true }},
			c14Builtin{"{{ " + q(s) + " | upper }}", func() (string, bool) { return strings.ToUpper(s), true }},
			c14Builtin{"{{ trimSpace: " + q(s) + " }}", func() (string, bool) { return strings.TrimSpace(s), true }},
			c14Builtin{"{{ html(" + q(s) + ") }}", func() (string, bool) { return html.EscapeString(s), true }},
			c14Builtin{"{{ " + q(s) + " | url }}", func() (string, bool) { return url.QueryEscape(s), true }},
			c14Builtin{"{{ len(" + q(s) + ") }}", func() (string, bool) { return fmt.Sprint(len(s)), true }},
			c14Builtin{"{{ json(" + q(s) + ") }}", func() (string, bool) { b, _ := json.Marshal(s); return string(b), true }},
			c14Builtin{"{{ writeJson(" + q(s) + ") }}", func() (string, bool) { b, _ := json.Marshal(s); return string(b) + "\n", true }},
			c14Builtin{"{{ repeat(" + q(s) + ", 3) }}", func() (string, bool) { return strings.Repeat(s, 3), true }},
			c14Builtin{"{{ " + q(s) + " | repeat: 0 }}", func() (string, bool) { return "", true }},
			c14Builtin{"{{ 2 | repeat(" + q(s) + ", _) }}", func() (string, bool) { return strings.Repeat(s, 2), true }},
		)
		for _, p := range []string{"", "a", "Hello", "c", " "} {
			p := p
			bs = append(bs,
				c14Builtin{"{{ hasPrefix(" + q(s) + ", " + q(p) + ") }}", func() (string, bool) { return fmt.Sprint(strings.HasPrefix(s, p)), true }},
				c14Builtin{"{{ " + q(s) + " | hasSuffix: " + q(p) + " }}", func() (string, bool) { return fmt.Sprint(strings.HasSuffix(s, p)), true }},
				c14Builtin{"{{ split(" + q(s) + ", " + q(p) + ") }}", func() (string, bool) { return fmt.Sprint(strings.Split(s, p)), true }},
				c14Builtin{"{{ len(split(" + q(s) + ", " + q(p) + ")) }}", func() (string, bool) { return fmt.Sprint(len(strings.Split(s, p))), true }},
			)
			for _, n := range []int{-1, 0, 1, 2} {
				n := n
				bs = append(bs, c14Builtin{fmt.Sprintf("{{ replace(%s, %s, \"Z\", nn%d) }}", q(s), q(p), n+1), func() (string, bool) { return strings.Replace(s, p, "Z", n), true }})
			}
		}
	}
	bs = append(bs,
		c14Builtin{"{{ len(sl3) }}", func() (string, bool) { return "3", true }},
		c14Builtin{"{{ len(arr2) }}", func() (string, bool) { return "2", true }},
		c14Builtin{"{{ len(m2) }}", func() (string, bool) { return "2", true }},
		c14Builtin{"{{ len(psl) }}", func() (string, bool) { return "3", true }},
		c14Builtin{"{{ len(st) }}", func() (string, bool) { return "2", true }},
		c14Builtin{"{{ sl3 | len }}", func() (string, bool) { return "3", true }},
		c14Builtin{"{{ len(i3) }}", func() (string, bool) { return "", false }},
		c14Builtin{"{{ len(nil) }}", func() (string, bool) { return "", false }},
		c14Builtin{"{{ len() }}", func() (string, bool) { return "", false }},
		c14Builtin{"{{ len(sl3, sl3) }}", func() (string, bool) { return "", false }},
		c14Builtin{"{{ range i, v := ints(2, 5) }}{{ i }}={{ v }};{{ end }}", func() (string, bool) { return "0=2;1=3;2=4;", true }},
		c14Builtin{"{{ range ints(0, 1) }}{{ . }};{{ end }}", func() (string, bool) { return "0;", true }},
		c14Builtin{"{{ range ints(i3, 5) }}{{ . }};{{ end }}", func() (string, bool) { return "3;4;", true }},
		c14Builtin{"{{ range ints(-2, 1) }}{{ . }};{{ end }}", func() (string, bool) { return "-2;-1;0;", true }},
		c14Builtin{"{{ range ints(3, 3) }}x{{ end }}", func() (string, bool) { return "", false }},
		c14Builtin{"{{ range ints(5, 3) }}x{{ end }}", func() (string, bool) { return "", false }},
		c14Builtin{`{{ range ints("a", 3) }}x{{ end }}`, func() (string, bool) { return "", false }},
		c14Builtin{`{{ m := map("a", 1, "b", "two") }}{{ m.a }}|{{ m["b"] }}|{{ len(m) }}|{{ isset(m.c) }}`, func() (string, bool) { return "1|two|2|false", true }},
		c14Builtin{`{{ m := map() }}{{ len(m) }}`, func() (string, bool) { return "0", true }},
		c14Builtin{`{{ m := map(sv, i3) }}{{ m["var"] }}`, func() (string, bool) { return "3", true }},
		c14Builtin{`{{ m := map(up("k"), up("v")) }}{{ m["up<k>"] }}`, func() (string, bool) { return "up<v>", true }},
		c14Builtin{`{{ s := slice(up("a"), up("b")) }}{{ s[1] }}`, func() (string, bool) { return "up<b>", true }},
		c14Builtin{`{{ len(up("abc")) }}`, func() (string, bool) { return "7", true }},
		c14Builtin{`{{ isset(up) }}{{ lower(up("A")) }}`, func() (string, bool) { return "trueup<a>", true }},
		c14Builtin{`{{ m := map("a") }}`, func() (string, bool) { return "", false }},
		c14Builtin{`{{ m := map(myStr, 1) }}{{ m["named"] }}`, func() (string, bool) { return "1", true }},
		c14Builtin{`{{ s := slice("a", i3, 2.5) }}{{ s[0] }}|{{ s[1] }}|{{ s[2] }}|{{ len(s) }}`, func() (string, bool) { return "a|3|2.5|3", true }},
		c14Builtin{`{{ s := array("x", "y") }}{{ s[1:][0] }}`, func() (string, bool) { return "", false }}, // no postfix after a slice expression: parse error
		c14Builtin{`{{ s := array("x", "y") }}{{ t := s[1:] }}{{ t[0] }}|{{ len(s[:1]) }}`, func() (string, bool) { return "y|1", true }},
		c14Builtin{`{{ s := slice() }}{{ len(s) }}`, func() (string, bool) { return "0", true }},
		c14Builtin{`{{ json(m2) }}`, func() (string, bool) { b, _ := json.Marshal(map[string]int{"a": 1, "b": 2}); return string(b), true }},
		c14Builtin{`{{ json(sl3) }}`, func() (string, bool) { return "[1,2,3]", true }},
		c14Builtin{`{{ json(st) }}`, func() (string, bool) { b, _ := json.Marshal(pt{1, "<s>"}); return string(b), true }},
		c14Builtin{`{{ writeJson(m2) }}`, func() (string, bool) { return "{\"a\":1,\"b\":2}\n", true }},
		c14Builtin{`{{ json(ch) }}`, func() (string, bool) { return "", false }},
	)
	return bs
}

func c14BuiltinRun(src string) (out string, log []string, err error, pan interface{}) {
	ld := jet.NewInMemLoader()
	ld.Set("/t.jet", src)
	set := jet.NewSet(ld, jet.WithSafeWriter(nil))
	var buf bytes.Buffer
	func() {
		defer func() {
			if x := recover(); x != nil {
				pan = x
			}
		}()
		t, e := set.GetTemplate("/t.jet")
		if e != nil {
			err = fmt.Errorf("parse: %w", e)
			return
		}
		v := c14Vars(&log)
		sl := []int{1, 2, 3}
		v.Set("sl3", sl).Set("arr2", [2]string{"a", "b"}).Set("m2", map[string]int{"a": 1, "b": 2}).Set("psl", &sl).Set("st", pt{1, "<s>"}).Set("ch", make(chan int))
		v.Set("nn0", -1).Set("nn1", 0).Set("nn2", 1).Set("nn3", 2)
		type MyStr string
		v.Set("myStr", MyStr("named"))
		err = t.Execute(&buf, v, nil)
	}()
	return buf.String(), log, err, pan
}

func C14(r *core.Run) map[string]interface{} {
	r.Rule = "callable kinds (Go funcs of arity 1-3, variadic with 0-2 fixed parameters, method on value, method on pointer, jet.Func) x argument tuples (every combination of accepted spellings incl. int->float, float->int, named-type and uint conversions; one rejected argument at each position; wrong counts) x every surface form (call, prefix-colon, piped call, piped prefix, slot at each index in both spellings); chained pipelines of 2-3 stages with call log; forms that must be rejected (two slots, safe writer not last); each documented built-in over a string/value alphabet against the Go function it exposes; distinct = distinct (callable, form, outcome)"
	type job struct {
		cs  c14Case
		key string
	}
	var jobs []job
	for _, c := range c14Callables {
		for _, tup := range c14Tuples(c, r.Thorough()) {
			want, ok := c14Direct(c, tup)
			for form, src := range c14Forms(c.name, tup) {
				cs := c14Case{Form: form, Source: src, Want: want, WantErr: !ok}
				if ok {
					// evaluation order: the piped value first, then the written arguments left to right, then the call
					piped := -1
					switch {
					case strings.HasPrefix(form, "slot"):
						fmt.Sscanf(form, "slot%d", &piped)
					case strings.HasPrefix(form, "pipe"):
						piped = 0
					}
					cs.WantLog = []string{}
					if piped >= 0 && tup[piped].log != "" {
						cs.WantLog = append(cs.WantLog, tup[piped].log)
					}
					for k, a := range tup {
						if k != piped && a.log != "" {
							cs.WantLog = append(cs.WantLog, a.log)
						}
					}
					cs.WantLog = append(cs.WantLog, want)
				}
				if c.jetFn {
					hasNil := false
					for _, a := range tup {
						if a.v == nil {
							hasNil = true
						}
					}
					if hasNil {
						continue
					}
				}
				jobs = append(jobs, job{cs, c.name + ":" + form})
			}
		}
	}
	// chained pipelines: each stage exactly once, left to right
	chains := []struct {
		src  string
		want string
		log  []string
	}{
		{`{{ "a" | f1 | f1 }}`, "f1(f1(a))", []string{"f1(a)", "f1(f1(a))"}},
		{`{{ "a" | f1 | up | f1 }}`, "f1(up<f1(a)>)", []string{"f1(a)", "up<f1(a)>", "f1(up<f1(a)>)"}},
		{`{{ "a" | f2(1) | f1 }}`, "f1(f2(a 1))", []string{"f2(a 1)", "f1(f2(a 1))"}},
		{`{{ "a" | f2: 1 | f2(_, 2) }}`, "f2(f2(a 1) 2)", []string{"f2(a 1)", "f2(f2(a 1) 2)"}},
		{`{{ 2 | f2("a", _) | f3(1, 2.5) }}`, "f3(f2(a 2) 1 2.5)", []string{"f2(a 2)", "f3(f2(a 2) 1 2.5)"}},
		{`{{ f1("a") | up }}`, "up<f1(a)>", []string{"f1(a)", "up<f1(a)>"}},
		{`{{ f1(up("a")) }}`, "f1(up<a>)", []string{"up<a>", "f1(up<a>)"}},
		{`{{ f2(up("a"), 1) | f1 }}`, "f1(f2(up<a> 1))", []string{"up<a>", "f2(up<a> 1)", "f1(f2(up<a> 1))"}},
		{`{{ "a" | up | fv0 }}`, "fv0(up<a>)", []string{"up<a>", "fv0(up<a>)"}},
		{`{{ "a" | fv0("b") }}`, "fv0(a b)", []string{"fv0(a b)"}},
		{`{{ "a" | obj.MV(1) | pobj.MP(2) }}`, "pobj.MP(obj.MV(a 1) 2)", []string{"obj.MV(a 1)", "pobj.MP(obj.MV(a 1) 2)"}},
		{`{{ "a" | jf | jf("b") }}`, "jf[jf[a] b]", []string{"jf[a]", "jf[jf[a] b]"}},
		{`{{ up("k") | jf(_, up("v")) }}`, "jf[up<k> up<v>]", []string{"up<k>", "up<v>", "jf[up<k> up<v>]"}},
		{`{{ x := f1("a") }}{{ x }}{{ x }}`, "f1(a)f1(a)", []string{"f1(a)"}},
	}
	for _, c := range chains {
		jobs = append(jobs, job{c14Case{Form: "chain", Source: c.src, Want: c.want, WantLog: c.log}, "chain"})
	}
	// forms that must be rejected
	for _, src := range []string{
		`{{ "a" | f3(_, _, 2.5) }}`, `{{ "a" | f2(_, _) }}`, `{{ 1 | jf(_, _) }}`,
		`{{ "a" | raw | f1 }}`, `{{ "a" | safeHtml | up }}`, `{{ raw: "a" | f1 }}`, `{{ "a" | unsafe | raw }}`,
		`{{ raw: "a" | jf }}`, `{{ raw("a") | jf }}`, `{{ unsafe: "a", "b" | jf }}`, `{{ safeHtml("<a>") | jf("x") }}`, // a safe writer as the *first* stage
		`{{ f2("a", _) }}`, `{{ jf(_) }}`, `{{ "a" | undefinedFn }}`, `{{ "a" | sv }}`, `{{ "a" | f1() | 3 }}`,
	} {
		jobs = append(jobs, job{c14Case{Form: "reject", Source: src, WantErr: true}, "reject"})
	}
	r.ParallelFor(int64(len(jobs)), func(i int64) {
		j := jobs[i]
		why := c14Check(&j.cs)
		r.Eval()
		if why != "" {
			r.Violate(core.Violation{Sig: c14Classify(&j.cs), What: why, Case: j.cs})
			return
		}
		r.Distinct(j.key + ":" + fmt.Sprint(j.cs.WantErr))
		if i%97 == 0 {
			r.Sample(j.cs)
		}
	})
	// built-ins against the Go functions they expose
	bs := c14Builtins()
	r.ParallelFor(int64(len(bs)), func(i int64) {
		b := bs[i]
		want, ok := b.want()
		out, log, err, pan := c14BuiltinRun(b.src)
		r.Eval()
		cs := c14Case{Form: "builtin", Source: b.src, Want: want, WantErr: !ok, Got: out, WantLog: c14Logs[b.src], GotLog: log}
		if err != nil {
			cs.Err = err.Error()
		}
		switch {
		case pan != nil:
			r.Violate(core.Violation{What: fmt.Sprintf("%s panicked: %v", b.src, pan), Case: cs})
		case !ok && err == nil:
			r.Violate(core.Violation{What: fmt.Sprintf("%s must fail, rendered %q", b.src, out), Case: cs})
		case ok && (err != nil || out != want):
			r.Violate(core.Violation{What: fmt.Sprintf("%s rendered %q (error %v); the Go function gives %q", b.src, out, err, want), Case: cs})
		case ok && c14Logs[b.src] != nil && strings.Join(log, "|") != strings.Join(c14Logs[b.src], "|"):
			r.Violate(core.Violation{What: fmt.Sprintf("%s evaluated its arguments as %v; each must be evaluated exactly once: %v", b.src, log, c14Logs[b.src]), Case: cs})
		default:
			r.Distinct("builtin:" + want)
			if i%53 == 0 {
				r.Sample(cs)
			}
		}
	})
	return map[string]interface{}{"callables": len(c14Callables), "call_cases": len(jobs), "builtin_cases": len(bs), "traces_validated_against_impl": r.Evals()}
}

func c14Classify(cs *c14Case) string { return "" }

func init() {
	Registry["C14"] = C14
	Replayers["C14"] = func(raw json.RawMessage) string {
		var cs c14Case
		if err := json.Unmarshal(raw, &cs); err != nil {
			return err.Error()
		}
		if cs.Form == "builtin" {
			out, _, err, pan := c14BuiltinRun(cs.Source)
			if pan != nil || (cs.WantErr && err == nil) || (!cs.WantErr && (err != nil || out != cs.Want)) {
				return fmt.Sprintf("%s rendered %q (error %v, panic %v), want %q / error=%v", cs.Source, out, err, pan, cs.Want, cs.WantErr)
			}
			return ""
		}
		return c14Check(&cs)
	}
	_ = rj.HTMLEscape
}
