package props

import (
	"errors"
	"fmt"
	"html"
	"io"
	"strings"
	"text/template"

	"github.com/CloudyKit/jet/v6"

	"verif/mc/internal/core"
	rj "verif/mc/internal/refjet"
)

// C01 — every rendered value is escaped exactly once; only a SafeWriter as the last command bypasses.

type c01Stringer struct{ s string }

func (s c01Stringer) String() string { return s.s }

// numeric and bool kinds whose printed form comes from a method and carries HTML-special bytes
type c01HTMLInt int

func (c01HTMLInt) String() string { return "<i>&</i>" }

type c01ErrBool bool

func (c01ErrBool) Error() string { return "<b>'\"" }

func c01Long(n int, at ...int) string {
	b := []byte(strings.Repeat("x", n))
	specials := "<&>'\""
	for i, p := range at {
		if p < n {
			b[p] = specials[i%len(specials)]
		}
	}
	return string(b)
}

type c01Val struct {
	name string
	v    interface{}
	str  bool // usable with string-typed pipeline functions
	long bool
}

var c01PStr = "<p&>"

var c01Vals = []c01Val{
	{"lt", "<", true, false},
	{"gt", ">", true, false},
	{"amp", "&", true, false},
	{"apos", "'", true, false},
	{"quot", "\"", true, false},
	{"all", "<b a='1' c=\"2\">&</b>", true, false},
	{"escaped", "&lt;b&gt;&amp;", true, false},
	{"multibyte", "é<ü>&日本", true, false},
	{"plain", "plain text", true, false},
	{"empty", "", true, false},
	{"nul", "a\x00b<", true, false},
	{"int", 42, false, false},
	{"negint", -7, false, false},
	{"float", 2.5, false, false},
	{"bool", true, false, false},
	{"bytes", []byte("<by&tes>"), false, false},
	{"stringer", c01Stringer{"<st&r>"}, false, false},
	{"error", errors.New("<e&rr>"), false, false},
	{"strptr", &c01PStr, false, false},
	{"strslice", []string{"<a>", "b&"}, false, false},
	{"nil", nil, false, false},
	{"stringer-int", c01HTMLInt(7), false, false},
	{"error-bool", c01ErrBool(true), false, false},
	{"uint8", uint8(200), false, false},
	{"long4096", c01Long(4100, 4094, 4095, 4096, 4097, 4098), true, true},
	{"long8192", c01Long(8200, 0, 4095, 4096, 8190, 8191, 8192, 8193, 8194, 8199), true, true},
	{"exact4096", c01Long(4096, 0, 4095), true, true},
}

// escaper configurations
var c01Escapers = []string{"", "nil", "hesc", "besc"}

func c01HEsc(s string) string {
	return strings.NewReplacer("&", "(amp)", "<", "(lt)").Replace(s)
}
func c01BEsc(s string) string {
	if s == "" {
		panic(rj.Unspec("bracketing escaper on an empty printed form"))
	}
	if len(s) > 4000 {
		panic(rj.Unspec("non-homomorphic escaper on a value longer than one print chunk"))
	}
	return "⟦" + s + "⟧"
}
func c01UW(s string) string { return strings.NewReplacer("<", "(LT)").Replace(s) }

func init() {
	rj.Escapers["hesc"] = c01HEsc
	rj.ImplEscapers["hesc"] = func(w io.Writer, b []byte) { io.WriteString(w, c01HEsc(string(b))) }
	rj.Escapers["besc"] = c01BEsc
	rj.ImplEscapers["besc"] = func(w io.Writer, b []byte) { io.WriteString(w, "⟦"+string(b)+"⟧") }
	rj.SafeWriters["safeJs"] = template.JSEscapeString
	rj.SafeWriters["uw"] = c01UW
	rj.Builtins["html"] = html.EscapeString
}

func c01Mk(val c01Val) func(log *[]string) rj.Inputs {
	return func(log *[]string) rj.Inputs {
		vars := map[string]interface{}{
			"cT": true, "cF": false, "rOne": []string{"one"}, "rEmpty": []string{},
			"v":   val.v,
			"idS": func(s string) string { return s },
			"uw":  jet.SafeWriter(func(w io.Writer, b []byte) { io.WriteString(w, c01UW(string(b))) }),
		}
		return rj.Inputs{Vars: vars, Data: "D"}
	}
}

var c01Writers = []string{"raw", "unsafe", "safeHtml", "safeJs", "uw"}

const c01NForms = 3 + 15 + 10

func c01Action(form int) (*rj.Emit, bool) {
	switch form {
	case 0:
		return &rj.Emit{E: rj.V("v")}, false
	case 1:
		return &rj.Emit{E: rj.V("v"), Pipe: []string{"idS"}}, true
	case 2:
		return &rj.Emit{E: rj.V("v"), Pipe: []string{"html"}}, true
	}
	form -= 3
	if form >= 15 {
		// several arguments; the middle one executes a template that uses a *different* safe writer itself
		form -= 15
		return &rj.Emit{E: rj.V("v"), Writer: c01Writers[form/2], WForm: 1 + form%2, More: []rj.Expr{&rj.Exec{Name: rj.S("/helper.jet")}, rj.V("v")}}, false
	}
	return &rj.Emit{E: rj.V("v"), Writer: c01Writers[form/3], WForm: form % 3}, false
}

const c01NFrames = 14

type c01B struct {
	n     int
	lib   []rj.Stmt
	files []*rj.File
}

const c01Lit = "<&'\">" // literal template text: never escaped

func (b *c01B) frame(k int, inner []rj.Stmt) []rj.Stmt {
	b.n++
	id := b.n
	switch k {
	case 0:
		return []rj.Stmt{&rj.If{Cond: rj.V("cT"), Then: inner}}
	case 1:
		return []rj.Stmt{&rj.If{Cond: rj.V("cF"), Then: []rj.Stmt{rj.T("no")}, HasElse: true, Else: inner}}
	case 2:
		return []rj.Stmt{&rj.Range{X: rj.V("rOne"), Body: inner}}
	case 3:
		return []rj.Stmt{&rj.Range{X: rj.V("rEmpty"), Body: []rj.Stmt{rj.T("no")}, HasElse: true, Else: inner}}
	case 4:
		return []rj.Stmt{&rj.BlockDef{Name: fmt.Sprintf("d%d", id), Body: inner}}
	case 5:
		name := fmt.Sprintf("y%d", id)
		b.lib = append(b.lib, &rj.BlockDef{Name: name, Body: inner})
		return []rj.Stmt{&rj.Yield{Name: name}}
	case 6:
		name := fmt.Sprintf("w%d", id)
		b.lib = append(b.lib, &rj.BlockDef{Name: name, Body: []rj.Stmt{rj.T("<w>"), &rj.YieldContent{}, rj.T("</w>")}})
		return []rj.Stmt{&rj.Yield{Name: name, HasContent: true, Content: inner}}
	case 7:
		fn := fmt.Sprintf("/inc%d.jet", id)
		b.files = append(b.files, &rj.File{Name: fn, Body: inner})
		return []rj.Stmt{&rj.Include{Name: rj.S(fn)}}
	case 8:
		return []rj.Stmt{&rj.Try{Body: inner}}
	case 9:
		return []rj.Stmt{&rj.Try{Body: []rj.Stmt{rj.T("lost"), rj.E(rj.V("undefinedName"))}, HasCatch: true, Catch: inner}}
	case 10:
		fn := fmt.Sprintf("/ex%d.jet", id)
		b.files = append(b.files, &rj.File{Name: fn, Body: inner})
		return []rj.Stmt{rj.Let(fmt.Sprintf("r%d", id), &rj.Exec{Name: rj.S(fn)})}
	case 11:
		fn := fmt.Sprintf("/iie%d.jet", id)
		b.files = append(b.files, &rj.File{Name: fn, Body: inner})
		return []rj.Stmt{rj.E(&rj.IncIf{Name: rj.S(fn)})}
	case 12:
		// an earlier sibling: a safe writer whose second operand fails, abandoned by a try
		return append([]rj.Stmt{&rj.Try{Body: []rj.Stmt{&rj.Emit{E: rj.S("<p>"), Writer: c01Writers[id%len(c01Writers)], WForm: 1, More: []rj.Expr{rj.V("undefinedName")}}}}}, inner...)
	default:
		// the catch body of a try abandoned inside a safe writer
		return []rj.Stmt{&rj.Try{Body: []rj.Stmt{&rj.Emit{E: rj.S("<p>"), Writer: c01Writers[id%len(c01Writers)], WForm: 1, More: []rj.Expr{rj.V("undefinedName")}}}, HasCatch: true, Catch: inner}}
	}
}

func c01Build(shape int, frames []int, form int, val c01Val, esc string) *rj.Program {
	act, strOnly := c01Action(form)
	if strOnly && !val.str {
		return nil
	}
	b := &c01B{}
	body := []rj.Stmt{rj.T(c01Lit), act, rj.T(c01Lit)}
	for i := len(frames) - 1; i >= 0; i-- {
		body = append(append([]rj.Stmt{rj.T("[" + c01Lit)}, b.frame(frames[i], body)...), rj.T("]"))
	}
	var files []*rj.File
	entry := &rj.File{Name: "/t.jet"}
	switch shape {
	case 0:
		entry.Body = body
	case 1: // the action lives in the root layout of an extends chain of length 2
		files = append(files, &rj.File{Name: "/layout.jet", Body: body}, &rj.File{Name: "/mid.jet", Extends: "/layout.jet", Body: []rj.Stmt{rj.T("<stray>")}})
		entry.Extends = "/mid.jet"
		entry.Body = []rj.Stmt{rj.T("<stray&>")}
	default: // the action lives in a block of the leaf, rendered by the root's yield
		files = append(files, &rj.File{Name: "/layout.jet", Body: []rj.Stmt{rj.T("<html>"), &rj.Yield{Name: "main"}, rj.T("</html>")}})
		entry.Extends = "/layout.jet"
		entry.Body = []rj.Stmt{rj.T("<stray>"), &rj.BlockDef{Name: "main", Body: body}}
	}
	if len(b.lib) > 0 {
		// imports belong to the file that holds the body
		holder := entry
		if shape == 1 {
			holder = files[0]
		}
		holder.Imports = []string{"/lib.jet"}
		files = append(files, &rj.File{Name: "/lib.jet", Body: b.lib})
	}
	helperWriter := "unsafe"
	if act.Writer == "unsafe" || act.Writer == "raw" {
		helperWriter = "safeHtml"
	}
	files = append(files, &rj.File{Name: "/helper.jet", Body: []rj.Stmt{rj.T("lost"), &rj.Emit{E: rj.S("<inner>"), Writer: helperWriter, WForm: 1}, &rj.Return{E: rj.S("<R&>")}}})
	files = append(append([]*rj.File{entry}, files...), b.files...)
	return &rj.Program{Files: files, Entry: "/t.jet", Mk: c01Mk(val), Escaper: esc}
}

func c01Frames(code int64) []int {
	f := int64(c01NFrames)
	switch {
	case code == 0:
		return nil
	case code < 1+f:
		return []int{int(code - 1)}
	case code < 1+f+f*f:
		code -= 1 + f
		return []int{int(code / f), int(code % f)}
	default:
		code -= 1 + f + f*f
		return []int{int(code / (f * f)), int((code / f) % f), int(code % f)}
	}
}

// shortVals: the value subset used for deep contexts
var c01Short = []int{0, 2, 5, 6, 9, 11, 15, 16, 19, 20, 21}

var c01Flat = registerSpace(&e1Space{
	Prop: "C01", Name: "depth<=1",
	N: func(th bool) int64 {
		return int64(1+c01NFrames) * 3 * c01NForms * int64(len(c01Vals)) * int64(len(c01Escapers))
	},
	Gen: func(i int64, th bool) *rj.Program {
		ix := core.Radix(i, 1+c01NFrames, 3, c01NForms, len(c01Vals), len(c01Escapers))
		return c01Build(ix[1], c01Frames(int64(ix[0])), ix[2], c01Vals[ix[3]], c01Escapers[ix[4]])
	},
})

var c01Deep = registerSpace(&e1Space{
	Prop: "C01", Name: "depth2-3",
	N: func(th bool) int64 {
		f := int64(c01NFrames)
		ctx := f * f
		if th {
			ctx += f * f * f
		}
		return ctx * 3 * c01NForms * int64(len(c01Short)) * int64(len(c01Escapers))
	},
	Gen: func(i int64, th bool) *rj.Program {
		f := int64(c01NFrames)
		ctx := f * f
		if th {
			ctx += f * f * f
		}
		ix := core.Radix(i, int(ctx), 3, c01NForms, len(c01Short), len(c01Escapers))
		if !th && ix[4] >= 2 && ix[3] >= 5 {
			return nil // quick: custom escapers with the first five short values only
		}
		return c01Build(ix[1], c01Frames(int64(ix[0])+1+f), ix[2], c01Vals[c01Short[ix[3]]], c01Escapers[ix[4]])
	},
})

func C01(r *core.Run) map[string]interface{} {
	r.Rule = "context (every sequence of <=2, thorough 3, frames over if/else/range/range-else/block/yield/content/include/try/catch/exec/includeIfExists/after-a-try-abandoned-inside-a-safe-writer/catch-of-such-a-try) x outer shape (plain, root layout of an extends chain, leaf block rendered by the root's yield) x 24 values (each HTML-special byte, combinations, pre-escaped, multi-byte, NUL, specials at the 4096-byte print-chunk borders, int/float/bool/[]byte/Stringer/error/*string/[]string/nil) x 28 action forms ({{v}}, {{v|f}}, {{v|html}}, 5 safe writers in 3 call forms, and in 2 multi-argument forms whose middle argument executes a template using another safe writer) x 4 escapers (default, nil, custom homomorphic, custom bracketing); oracle: byte equality with text ++ E(printed v); distinct = distinct reference outputs"
	runSpace(r, c01Flat)
	runSpace(r, c01Deep)
	return map[string]interface{}{"values": len(c01Vals), "forms": c01NForms, "frames": c01NFrames, "traces_validated_against_impl": r.Evals()}
}

func init() {
	Registry["C01"] = C01
	Replayers["C01"] = replayE1
}
