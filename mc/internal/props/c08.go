package props

import (
	"fmt"

	"verif/mc/internal/core"
	rj "verif/mc/internal/refjet"
)

// C08 — extends renders the root layout; blocks resolve to the most-derived definition.

func c08Mk(log *[]string) rj.Inputs {
	return rj.Inputs{Vars: map[string]interface{}{"cT": true, "cF": false, "rS": []string{"e1", "e2"}}, Data: "D"}
}

// defs returns block definitions for subset code (bit0 = A, bit1 = B), with a placement style.
func c08Defs(file string, subset, style int) []rj.Stmt {
	var out []rj.Stmt
	mk := func(name string) *rj.BlockDef {
		return &rj.BlockDef{Name: name, Body: []rj.Stmt{rj.T(file + "." + name)}}
	}
	var a, b *rj.BlockDef
	if subset&1 != 0 {
		a = mk("A")
	}
	if subset&2 != 0 {
		b = mk("B")
	}
	switch style {
	case 1: // A defined conditionally (never executed, still registered)
		if a != nil {
			out = append(out, &rj.If{Cond: rj.V("cF"), Then: []rj.Stmt{a}})
			a = nil
		}
	case 2: // A nested inside B's body
		if a != nil && b != nil {
			b.Body = append(b.Body, rj.T("("), a, rj.T(")"))
			a = nil
		}
	}
	if a != nil {
		out = append(out, a)
	}
	if b != nil {
		out = append(out, b)
	}
	return out
}

const c08NPos = 8

func c08Root(pos int, name string) []rj.Stmt {
	y := func() rj.Stmt { return &rj.Yield{Name: name} }
	switch pos {
	case 0:
		return []rj.Stmt{rj.T("["), y(), rj.T("]")}
	case 1:
		return []rj.Stmt{rj.T("["), &rj.If{Cond: rj.V("cT"), Then: []rj.Stmt{y()}}, rj.T("]")}
	case 2:
		return []rj.Stmt{rj.T("["), &rj.Range{X: rj.V("rS"), Body: []rj.Stmt{y(), rj.T(";")}}, rj.T("]")}
	case 3: // definition site in the root: renders the most-derived definition in place
		return []rj.Stmt{rj.T("["), &rj.BlockDef{Name: name, Body: []rj.Stmt{rj.T("l0." + name)}}, rj.T("]")}
	case 4: // yield inside another block's body
		return []rj.Stmt{rj.T("["), &rj.BlockDef{Name: "W", Body: []rj.Stmt{rj.T("w("), y(), rj.T(")")}}, rj.T("]")}
	case 5: // yield inside content
		return []rj.Stmt{rj.T("["), &rj.BlockDef{Name: "W2", Body: []rj.Stmt{rj.T("<"), &rj.YieldContent{}, rj.T(">")}, HasContent: true, Content: []rj.Stmt{y()}}, rj.T("]")}
	case 6: // both blocks, B first
		other := "A"
		if name == "A" {
			other = "B"
		}
		return []rj.Stmt{rj.T("["), &rj.Yield{Name: other}, rj.T("|"), y(), rj.T("]")}
	default: // definition site inside if inside range
		return []rj.Stmt{rj.T("["), &rj.Range{X: rj.V("rS"), Body: []rj.Stmt{&rj.If{Cond: rj.V("cT"), Then: []rj.Stmt{&rj.BlockDef{Name: name, Body: []rj.Stmt{rj.T("l0." + name)}}}}}}, rj.T("]")}
	}
}

// space "sets": chain length x imports x block subsets x root position
var c08Sets = registerSpace(&e1Space{
	Prop: "C08", Name: "sets",
	N: func(th bool) int64 {
		if th {
			return 4 * 3 * 1024 * c08NPos * 2 * 3 // chains of 1-4, five definition slots
		}
		return 3 * 3 * 256 * c08NPos * 2 * 3
	},
	Gen: func(i int64, th bool) *rj.Program {
		nchain, nsub := int64(3), int64(256)
		if th {
			nchain, nsub = 4, 1024
		}
		chain := int(i%nchain) + 1
		i /= nchain
		nimp := int(i % 3)
		i /= 3
		subsets := int(i % nsub)
		i /= nsub
		pos := int(i % c08NPos)
		i /= c08NPos
		name := []string{"A", "B"}[i%2]
		style := int(i / 2)
		sub := func(k int) int { return (subsets >> (2 * uint(k))) & 3 }
		impBase := 2
		if th {
			impBase = 3
		}
		var files []*rj.File
		// l0 = root layout, l1 extends l0, l2 extends l1; the entry is the last of the chain
		root := &rj.File{Name: "/l0.jet", Body: c08Root(pos, name)}
		files = append(files, root)
		prev := root
		for c := 1; c < chain; c++ {
			f := &rj.File{Name: fmt.Sprintf("/l%d.jet", c), Extends: prev.Name}
			f.Body = append([]rj.Stmt{rj.T("stray-before")}, c08Defs(fmt.Sprintf("l%d", c), sub(c-1), style)...)
			f.Body = append(f.Body, rj.T("stray-after"))
			files = append(files, f)
			prev = f
		}
		entry := prev
		for m := 0; m < nimp; m++ {
			f := &rj.File{Name: fmt.Sprintf("/i%d.jet", m+1)}
			f.Body = append([]rj.Stmt{rj.T("import-stray")}, c08Defs(fmt.Sprintf("i%d", m+1), sub(impBase+m), 0)...)
			files = append(files, f)
			entry.Imports = append(entry.Imports, f.Name)
		}
		if chain == 1 && sub(0) != 0 && pos != 3 && pos != 7 {
			// a single template that also defines blocks itself: definitions render in place after the layout
			entry.Body = append(entry.Body, rj.T("(:"))
			entry.Body = append(entry.Body, c08Defs("l0", sub(0), 0)...)
			entry.Body = append(entry.Body, rj.T(":)"))
		}
		return &rj.Program{Files: files, Entry: entry.Name, Mk: c08Mk}
	},
	Extra: e1EveryEntry,
})

// space "params": default patterns x ordered argument subsets
var c08Perms = [][]int{{}, {0}, {1}, {2}, {0, 1}, {1, 0}, {0, 2}, {2, 0}, {1, 2}, {2, 1}, {0, 1, 2}, {0, 2, 1}, {1, 0, 2}, {1, 2, 0}, {2, 0, 1}, {2, 1, 0}}

var c08Params = registerSpace(&e1Space{
	Prop: "C08", Name: "params",
	N: func(th bool) int64 { return 8 * int64(len(c08Perms)) * 3 * 2 * 4 },
	Gen: func(i int64, th bool) *rj.Program {
		collide := int(i % 4) // a variable named like a parameter is visible at the yield site: none / VarMap / local / global
		i /= 4
		defaults := int(i % 8)
		i /= 8
		perm := c08Perms[i%int64(len(c08Perms))]
		i /= int64(len(c08Perms))
		where := int(i % 3) // block lives in: import, extended parent (entry extends), entry itself after the yield? (2 = entry, all defaults forced)
		ctx := i/3 == 1
		names := []string{"a", "b", "c"}
		var params []rj.Param
		for k, n := range names {
			p := rj.Param{Name: n}
			if defaults&(1<<uint(k)) != 0 || where == 2 {
				p.Val = rj.S("d" + n)
			}
			params = append(params, p)
		}
		blk := &rj.BlockDef{Name: "P", Params: params, Body: []rj.Stmt{rj.T("a="), rj.E(rj.V("a")), rj.T(",b="), rj.E(rj.V("b")), rj.T(",c="), rj.E(rj.V("c")), rj.T(",.="), rj.E(&rj.Dot{})}}
		y := &rj.Yield{Name: "P"}
		for _, k := range perm {
			y.Args = append(y.Args, rj.Param{Name: names[k], Val: rj.S("arg" + names[k])})
		}
		if ctx {
			y.Ctx = rj.S("C")
		}
		body := []rj.Stmt{rj.T("["), y, rj.T("]")}
		mk := c08Mk
		switch collide {
		case 1:
			mk = func(log *[]string) rj.Inputs {
				in := c08Mk(log)
				in.Vars["b"] = "vm-b"
				in.Vars["c"] = "vm-c"
				return in
			}
		case 2:
			body = append([]rj.Stmt{rj.Let("a", rj.S("local-a")), rj.Let("c", rj.S("local-c"))}, body...)
			body = append(body, rj.T("|a="), rj.E(rj.V("a")), rj.T(",c="), rj.E(rj.V("c")))
		case 3:
			mk = func(log *[]string) rj.Inputs {
				in := c08Mk(log)
				in.Globals = map[string]interface{}{"a": "gl-a", "b": "gl-b"}
				return in
			}
		}
		if collide != 0 {
			var p *rj.Program
			switch where {
			case 0:
				p = &rj.Program{Files: []*rj.File{{Name: "/t.jet", Imports: []string{"/lib.jet"}, Body: body}, {Name: "/lib.jet", Body: []rj.Stmt{blk}}}, Entry: "/t.jet"}
			case 1:
				p = &rj.Program{Files: []*rj.File{{Name: "/t.jet", Extends: "/base.jet", Body: []rj.Stmt{blk}}, {Name: "/base.jet", Body: body}}, Entry: "/t.jet"}
			default:
				p = &rj.Program{Files: []*rj.File{{Name: "/t.jet", Body: append(body, rj.T("(:"), blk, rj.T(":)"))}}, Entry: "/t.jet"}
			}
			p.Mk = mk
			return p
		}
		switch where {
		case 0:
			return &rj.Program{Files: []*rj.File{{Name: "/t.jet", Imports: []string{"/lib.jet"}, Body: body}, {Name: "/lib.jet", Body: []rj.Stmt{blk}}}, Entry: "/t.jet", Mk: c08Mk}
		case 1:
			return &rj.Program{Files: []*rj.File{{Name: "/t.jet", Extends: "/base.jet", Body: []rj.Stmt{blk}}, {Name: "/base.jet", Body: body}}, Entry: "/t.jet", Mk: c08Mk}
		default:
			return &rj.Program{Files: []*rj.File{{Name: "/t.jet", Body: append(body, rj.T("(:"), blk, rj.T(":)"))}}, Entry: "/t.jet", Mk: c08Mk}
		}
	},
})

// space "content": content nesting, caller-scope variables, recursion
var c08Content = registerSpace(&e1Space{
	Prop: "C08", Name: "content",
	N: func(th bool) int64 { return 2 * 2 * 2 * 3 * 2 * 4 },
	Gen: func(i int64, th bool) *rj.Program {
		bit := func() bool { b := i%2 == 1; i /= 2; return b }
		innerLocal := bit() // the wrapping block declares a local of the same name as the caller's variable
		nested := bit()     // content yields another block with content
		ctx := bit()        // the yield passes a context
		depth := int(i % 3) // recursion depth
		i /= 3
		where := int(i % 2) // wrapper blocks in an import or in the extended parent
		i /= 2
		ycCtx := int(i % 4) // {{yield content}} with / without its own context expression; yield inside range
		wbody := []rj.Stmt{}
		if innerLocal {
			wbody = append(wbody, rj.Let("x", rj.S("inner")))
		}
		yc := &rj.YieldContent{}
		if ycCtx == 1 {
			yc.Ctx = rj.S("YC")
		}
		wbody = append(wbody, rj.T("<"), yc, rj.T(">"))
		if ycCtx == 2 {
			wbody = []rj.Stmt{&rj.Range{X: rj.V("rS"), Body: []rj.Stmt{rj.T("<"), &rj.YieldContent{}, rj.T(">")}}}
		}
		if ycCtx == 3 {
			wbody = append(wbody, rj.T("again:"), &rj.YieldContent{})
		}
		w := &rj.BlockDef{Name: "W", Body: wbody}
		w2 := &rj.BlockDef{Name: "W2", Body: []rj.Stmt{rj.T("("), &rj.YieldContent{}, rj.T(")")}}
		rec := &rj.BlockDef{Name: "R", Params: []rj.Param{{Name: "n", Val: rj.N(0)}}, Body: []rj.Stmt{
			rj.E(rj.V("n")), &rj.If{Cond: &rj.Bin{Op: "<", L: rj.V("n"), R: rj.N(float64(depth))}, Then: []rj.Stmt{rj.T(">"), &rj.Yield{Name: "R", Args: []rj.Param{{Name: "n", Val: &rj.Bin{Op: "+", L: rj.V("n"), R: rj.N(1)}}}}}},
		}}
		inner := []rj.Stmt{rj.T("x="), rj.E(rj.V("x")), rj.T(",.="), rj.E(&rj.Dot{})}
		if nested {
			inner = append(inner, &rj.Yield{Name: "W2", HasContent: true, Content: []rj.Stmt{rj.Let("z", rj.S("Z")), rj.T("x="), rj.E(rj.V("x")), rj.T(",z="), rj.E(rj.V("z")), &rj.Yield{Name: "R"}}})
		}
		y := &rj.Yield{Name: "W", HasContent: true, Content: inner}
		if ctx {
			y.Ctx = rj.S("C")
		}
		body := []rj.Stmt{rj.Let("x", rj.S("X")), rj.T("["), y, rj.T("]"), rj.T("x="), rj.E(rj.V("x")), rj.T(",.="), rj.E(&rj.Dot{})}
		lib := []rj.Stmt{w, w2, rec}
		if where == 0 {
			return &rj.Program{Files: []*rj.File{{Name: "/t.jet", Imports: []string{"/lib.jet"}, Body: body}, {Name: "/lib.jet", Body: lib}}, Entry: "/t.jet", Mk: c08Mk}
		}
		return &rj.Program{Files: []*rj.File{{Name: "/t.jet", Extends: "/base.jet", Body: lib}, {Name: "/base.jet", Body: body}}, Entry: "/t.jet", Mk: c08Mk}
	},
})


// space "siblings": what one block/yield does with the pending content must not leak into the next sibling.
// Sequences of <=3 items (yield of a parameter-less / parameterised wrapper with and without content, in-place
// definitions with and without default content, yield content) at the top level and inside the body of an
// outer block that was itself yielded with content.
const c08NSib = 9

func c08Sib(k, id int) []rj.Stmt {
	c := rj.T(fmt.Sprintf("c%d", id))
	switch k {
	case 0:
		return []rj.Stmt{&rj.Yield{Name: "box", HasContent: true, Content: []rj.Stmt{c}}}
	case 1:
		return []rj.Stmt{&rj.Yield{Name: "box"}}
	case 2:
		return []rj.Stmt{&rj.Yield{Name: "pbox", HasContent: true, Content: []rj.Stmt{c}}}
	case 3:
		return []rj.Stmt{&rj.Yield{Name: "pbox"}}
	case 4:
		return []rj.Stmt{&rj.BlockDef{Name: fmt.Sprintf("d%d", id), Body: []rj.Stmt{rj.T("<"), &rj.YieldContent{}, rj.T(">")}, HasContent: true, Content: []rj.Stmt{rj.T(fmt.Sprintf("def%d", id))}}}
	case 5:
		return []rj.Stmt{&rj.BlockDef{Name: fmt.Sprintf("e%d", id), Body: []rj.Stmt{rj.T("(e:"), &rj.YieldContent{}, rj.T(")")}}}
	case 6:
		return []rj.Stmt{rj.T("yc:"), &rj.YieldContent{}}
	case 8: // a content that is given but empty: it is still the caller's content (nothing), not the enclosing one
		return []rj.Stmt{&rj.Yield{Name: "box", HasContent: true, Content: []rj.Stmt{}}}
	default: // a content body that itself shows the content pending where the yield stands
		return []rj.Stmt{&rj.Yield{Name: "box", HasContent: true, Content: []rj.Stmt{rj.T("<"), &rj.YieldContent{}, rj.T(">")}}}
	}
}

var c08Siblings = registerSpace(&e1Space{
	Prop: "C08", Name: "siblings",
	N: func(th bool) int64 {
		n := int64(1 + c08NSib + c08NSib*c08NSib + c08NSib*c08NSib*c08NSib)
		if th {
			n += pow(c08NSib, 4) + pow(c08NSib, 5)
		}
		return n * 3
	},
	Gen: func(i int64, th bool) *rj.Program {
		where := int(i % 3)
		i /= 3
		n := 0
		for n = 0; n <= 5; n++ {
			if i < pow(c08NSib, int64(n)) {
				break
			}
			i -= pow(c08NSib, int64(n))
		}
		var seq []rj.Stmt
		for j := 0; j < n; j++ {
			seq = append(seq, c08Sib(int(i%c08NSib), j+1)...)
			seq = append(seq, rj.T("|"))
			i /= c08NSib
		}
		lib := []rj.Stmt{
			&rj.BlockDef{Name: "box", Body: []rj.Stmt{rj.T("["), &rj.YieldContent{}, rj.T("]")}},
			&rj.BlockDef{Name: "pbox", Params: []rj.Param{{Name: "a", Val: rj.N(1)}}, Body: []rj.Stmt{rj.T("("), &rj.YieldContent{}, rj.T(")")}},
		}
		body := seq
		switch where {
		case 1:
			lib = append(lib, &rj.BlockDef{Name: "outer", Body: append(append([]rj.Stmt{rj.T("o:")}, seq...), rj.T("yc:"), &rj.YieldContent{})})
			body = []rj.Stmt{&rj.Yield{Name: "outer", HasContent: true, Content: []rj.Stmt{rj.T("OUT")}}, rj.T("|"), &rj.Yield{Name: "box"}}
		case 2:
			lib = append(lib, &rj.BlockDef{Name: "outer", Params: []rj.Param{{Name: "p", Val: rj.N(1)}}, Body: append(append([]rj.Stmt{rj.T("o:")}, seq...), rj.T("yc:"), &rj.YieldContent{})})
			body = []rj.Stmt{&rj.Yield{Name: "outer", HasContent: true, Content: []rj.Stmt{rj.T("OUT")}}, rj.T("|"), &rj.Yield{Name: "box"}}
		}
		return &rj.Program{Files: []*rj.File{{Name: "/t.jet", Imports: []string{"/lib.jet"}, Body: body}, {Name: "/lib.jet", Body: lib}}, Entry: "/t.jet", Mk: c08Mk}
	},
})


// space "defsite-params": a definition site with parameters in the root layout, overridden by extending
// templates whose definitions declare other parameter lists and defaults: the site renders the most-derived
// definition with *that* definition's parameters and defaults.
var c08DefSite = registerSpace(&e1Space{
	Prop: "C08", Name: "defsite-params",
	N: func(th bool) int64 { return int64(len(c08Perms)) * int64(len(c08Perms)) * 2 },
	Gen: func(i int64, th bool) *rj.Program {
		np := int64(len(c08Perms))
		leafPerm, midPerm := c08Perms[i%np], c08Perms[(i/np)%np]
		withMid := i/(np*np) == 1
		names := []string{"a", "b", "c"}
		show := func(tag string) []rj.Stmt {
			out := []rj.Stmt{rj.T(tag + ":")}
			for _, n := range names {
				out = append(out, rj.T(n+"="), rj.E(&rj.Tern{C: &rj.IsSet{Args: []rj.Expr{rj.V(n)}}, A: rj.V(n), B: rj.S("-")}), rj.T(","))
			}
			return out
		}
		def := func(tag string, perm []int) *rj.BlockDef {
			b := &rj.BlockDef{Name: "P", Body: show(tag)}
			for _, k := range perm {
				b.Params = append(b.Params, rj.Param{Name: names[k], Val: rj.S(tag + "-" + names[k])})
			}
			return b
		}
		base := &rj.File{Name: "/base.jet", Body: []rj.Stmt{rj.T("["), def("base", []int{0, 1, 2}), rj.T("|"), &rj.Yield{Name: "P"}, rj.T("|"), &rj.Yield{Name: "P", Args: []rj.Param{{Name: "b", Val: rj.S("arg-b")}}}, rj.T("]")}}
		files := []*rj.File{base}
		parent := base.Name
		if withMid {
			files = append(files, &rj.File{Name: "/mid.jet", Extends: parent, Body: []rj.Stmt{def("mid", midPerm)}})
			parent = "/mid.jet"
		} else if len(midPerm) != 0 {
			return nil
		}
		files = append(files, &rj.File{Name: "/t.jet", Extends: parent, Body: []rj.Stmt{rj.T("stray"), def("leaf", leafPerm)}})
		return &rj.Program{Files: files, Entry: "/t.jet", Mk: c08Mk}
	},
	Extra: e1EveryEntry,
})

func C08(r *core.Run) map[string]interface{} {
	r.Rule = "all template sets with an extends chain of 1-3 and 0-2 imports where every non-root template defines any subset of {A,B} (plain, conditional, nested placement), x 8 positions of the yield/definition site in the root; parameter lists of 3 with every default pattern x every ordered subset of named arguments x 3 block homes; content nesting/recursion/caller-scope variants; definition sites with parameters overridden along the extends chain by definitions with other parameter lists and defaults; sibling sequences (<=3 of 9 items: an empty content body, content that shows the enclosing pending content, wrappers with/without parameters and content, in-place definitions with/without default content, yield content) at top level and inside an outer block yielded with content; distinct = distinct reference outputs"
	runSpace(r, c08Sets)
	runSpace(r, c08Params)
	runSpace(r, c08Content)
	runSpace(r, c08Siblings)
	runSpace(r, c08DefSite)
	return map[string]interface{}{"traces_validated_against_impl": r.Evals()}
}

func init() {
	Registry["C08"] = C08
	Replayers["C08"] = replayE1
}
