package props

import (
	"fmt"

	"verif/mc/internal/core"
	rj "verif/mc/internal/refjet"
)

// C09 — include renders in place with the caller's variables; exec returns a value;
// includeIfExists is include-or-false.

func c09Mk(log *[]string) rj.Inputs {
	return rj.Inputs{Vars: map[string]interface{}{"cT": true, "cF": false, "rS": []string{"e1", "e2"}, "rOne": []string{"one"}, "nameVar": "", "dir": "/sub/", "nilv": nil}, Data: "D"}
}

const c09NCallee = 32

// c09Callee builds the callee file set for shape k; it returns the callee's files and whether it exists.
func c09Callee(k int, name string) (files []*rj.File, exists bool) {
	ret := func(v string) rj.Stmt { return &rj.Return{E: rj.S(v)} }
	f := &rj.File{Name: name}
	files = []*rj.File{f}
	exists = true
	plainInc := &rj.File{Name: "/sub/leaf.jet", Body: []rj.Stmt{rj.T("leaf")}}
	retInc := &rj.File{Name: "/sub/retleaf.jet", Body: []rj.Stmt{rj.T("rleaf"), ret("R-nested")}}
	switch k {
	case 0:
		f.Body = []rj.Stmt{rj.T("callee:"), rj.E(&rj.Dot{})}
	case 1: // declares variables, rebinds the context, assigns to a caller variable
		f.Body = []rj.Stmt{rj.Let("x", rj.S("cx")), rj.Let("cv2", rj.S("cd")), &rj.Range{X: rj.V("rS"), Body: []rj.Stmt{rj.E(&rj.Dot{})}}, rj.Set("cv", rj.S("changed")), rj.T("cv="), rj.E(rj.V("cv"))}
	case 2:
		f.Body = []rj.Stmt{rj.T("a"), ret("R-top"), rj.T("b")}
	case 3:
		f.Body = []rj.Stmt{rj.T("a"), &rj.If{Cond: rj.V("cT"), Then: []rj.Stmt{ret("R-if")}}, rj.T("b")}
	case 4:
		f.Body = []rj.Stmt{rj.T("a"), &rj.Range{X: rj.V("rS"), Body: []rj.Stmt{rj.E(&rj.Dot{}), ret("R-range")}}, rj.T("b")}
	case 5:
		f.Body = []rj.Stmt{rj.T("a"), &rj.Include{Name: rj.S("/sub/retleaf.jet")}, rj.T("b")}
		files = append(files, retInc)
	case 6: // inside a block body
		f.Body = []rj.Stmt{rj.T("a"), &rj.BlockDef{Name: "rb", Body: []rj.Stmt{rj.T("blk"), ret("R-block")}}, rj.T("b")}
	case 7: // inside yield content
		f.Body = []rj.Stmt{&rj.BlockDef{Name: "wr", Body: []rj.Stmt{rj.T("<"), &rj.YieldContent{}, rj.T(">")}, HasContent: true, Content: []rj.Stmt{rj.T("c"), ret("R-content")}}, rj.T("b")}
	case 8: // twice
		f.Body = []rj.Stmt{ret("R-first"), rj.T("m"), ret("R-second")}
	case 9: // never
		f.Body = []rj.Stmt{rj.T("no-return"), rj.Let("q", rj.S("q"))}
	case 10, 11, 12, 13, 14, 15, 16: // return followed, in the same list, by another statement that executes no return
		var after rj.Stmt
		switch k {
		case 10:
			after = rj.T("text")
		case 11:
			after = rj.E(rj.S("action"))
		case 12:
			after = &rj.If{Cond: rj.V("cT"), Then: []rj.Stmt{rj.T("if")}}
		case 13:
			after = &rj.If{Cond: rj.V("cF"), Then: []rj.Stmt{rj.T("if")}, HasElse: true, Else: []rj.Stmt{rj.T("else")}}
		case 14:
			after = &rj.Try{Body: []rj.Stmt{rj.T("try")}}
		case 15:
			after = &rj.Include{Name: rj.S("/sub/leaf.jet")}
			files = append(files, plainInc)
		case 16:
			after = &rj.Try{Body: []rj.Stmt{rj.E(rj.V("undefinedName"))}, HasCatch: true, Catch: []rj.Stmt{rj.T("caught")}}
		}
		f.Body = []rj.Stmt{ret("R-then"), after, rj.T("z")}
	case 17: // return inside try that later fails: the return did not happen
		f.Body = []rj.Stmt{ret("R-before"), &rj.Try{Body: []rj.Stmt{ret("R-in-failed-try"), rj.E(rj.V("undefinedName"))}}, rj.T("z")}
	case 18, 19, 20: // callee extends a chain of length 1..3; the root carries the body
		depth := k - 17
		prev := &rj.File{Name: "/sub/base0.jet", Body: []rj.Stmt{rj.T("root:"), rj.E(&rj.Dot{}), &rj.Yield{Name: "cb"}, ret("R-root")}}
		files = append(files, prev)
		for d := 1; d < depth; d++ {
			g := &rj.File{Name: fmt.Sprintf("/sub/base%d.jet", d), Extends: prev.Name, Body: []rj.Stmt{rj.T("stray"), &rj.BlockDef{Name: "cb", Body: []rj.Stmt{rj.T(fmt.Sprintf("cb%d", d))}}}}
			files = append(files, g)
			prev = g
		}
		f.Extends = prev.Name
		f.Body = []rj.Stmt{rj.T("stray-leaf"), &rj.BlockDef{Name: "cb", Body: []rj.Stmt{rj.T("cb-leaf")}}}
	case 21: // callee defines a block with the caller's block name and yields it; and yields a caller-only block
		f.Body = []rj.Stmt{&rj.BlockDef{Name: "CB", Body: []rj.Stmt{rj.T("callee-CB")}}, rj.T("|"), &rj.Yield{Name: "CB"}, rj.T("|"), &rj.Yield{Name: "CALLERONLY"}}
	case 22: // reads the caller's variables and context
		f.Body = []rj.Stmt{rj.T("cv="), rj.E(rj.V("cv")), rj.T(",.="), rj.E(&rj.Dot{})}
	case 23: // fails
		f.Body = []rj.Stmt{rj.T("before"), rj.E(rj.V("undefinedName")), rj.T("after")}
	case 24: // return inside a range inside an if, loop must stop after the first element
		f.Body = []rj.Stmt{&rj.If{Cond: rj.V("cT"), Then: []rj.Stmt{&rj.Range{K: "i", V: "v", Decl: true, X: rj.V("rS"), Body: []rj.Stmt{rj.E(rj.V("v")), &rj.If{Cond: &rj.Bin{Op: "==", L: rj.V("i"), R: rj.N(0)}, Then: []rj.Stmt{ret("R-deep")}}}}}}, rj.T("z")}
	case 25: // missing
		return nil, false
	case 26: // return reached through an include that is given a context
		f.Body = []rj.Stmt{rj.T("a"), &rj.Include{Name: rj.S("/sub/retleaf.jet"), Ctx: rj.S("IC")}, rj.T("b")}
		files = append(files, retInc)
	case 27: // ... through includeIfExists with a context
		f.Body = []rj.Stmt{rj.T("a"), rj.E(&rj.IncIf{Name: rj.S("/sub/retleaf.jet"), Ctx: rj.S("IC")}), rj.T("b")}
		files = append(files, retInc)
	case 31: // exists but does not parse: an error for every call kind, includeIfExists included
		f.Broken = true
	case 29: // returns its context: what '.' is inside an exec is only visible this way (the output is discarded)
		f.Body = []rj.Stmt{rj.T("x"), &rj.Return{E: &rj.Dot{}}}
	case 30: // returns a caller variable read inside a range of its own
		f.Body = []rj.Stmt{&rj.Range{X: rj.V("rOne"), Body: []rj.Stmt{&rj.Return{E: &rj.Bin{Op: "+", L: rj.V("cv"), R: &rj.Dot{}}}}}}
	case 28: // ... through a yield with a context, of a block that returns
		f.Body = []rj.Stmt{rj.T("a"), &rj.BlockDef{Name: "rb2", Ctx: rj.S("BC"), Body: []rj.Stmt{rj.T("blk"), rj.E(&rj.Dot{}), ret("R-block-ctx")}}, rj.T("b")}
	}
	return files, exists
}

const c09NSites = 7

// c09Site wraps the call statements in nesting frame k.
func c09Site(k int, call []rj.Stmt, extra *[]*rj.File, id int) []rj.Stmt {
	switch k {
	case 0:
		return call
	case 1:
		return []rj.Stmt{&rj.Range{X: rj.V("rS"), Body: append(call, rj.T(";"))}}
	case 2:
		return []rj.Stmt{&rj.BlockDef{Name: fmt.Sprintf("site%d", id), Body: call}}
	case 3:
		return []rj.Stmt{&rj.Try{Body: call, HasCatch: true, Catch: []rj.Stmt{rj.T("CAUGHT")}}}
	case 4:
		fn := fmt.Sprintf("/mid%d.jet", id)
		*extra = append(*extra, &rj.File{Name: fn, Body: call})
		return []rj.Stmt{&rj.Include{Name: rj.S(fn)}}
	case 5:
		return []rj.Stmt{&rj.BlockDef{Name: fmt.Sprintf("wrap%d", id), Body: []rj.Stmt{rj.T("<"), &rj.YieldContent{}, rj.T(">")}, HasContent: true, Content: call}}
	default:
		return []rj.Stmt{&rj.If{Cond: rj.V("cT"), Then: call}}
	}
}

// name forms: how the callee's name is spelt at the call site
const c09NNames = 6

func c09Name(form int, abs string, referrer string, kind int) (rj.Expr, bool) {
	// callee lives at /sub/c.jet ; referrers at /t.jet, /sub/t.jet, /sub/deep/t.jet
	switch form {
	case 0:
		return rj.S(abs), true
	case 1: // relative ./ form (include only: exec and includeIfExists resolve against the root)
		if kind != 0 {
			return nil, false
		}
		switch referrer {
		case "/t.jet":
			return rj.S("./sub/c.jet"), true
		case "/sub/t.jet":
			return rj.S("./c.jet"), true
		default:
			return rj.S("./../c.jet"), true
		}
	case 2: // ../ form
		if kind != 0 {
			return nil, false
		}
		switch referrer {
		case "/t.jet":
			return rj.S("../sub/c.jet"), true // clamps at the root
		case "/sub/t.jet":
			return rj.S("../sub/c.jet"), true
		default:
			return rj.S("../c.jet"), true
		}
	case 3:
		return rj.V("nameVar"), true
	case 4:
		return &rj.Bin{Op: "+", L: rj.V("dir"), R: rj.S("c.jet")}, true
	default: // the name depends on the caller's context: it must be evaluated before the callee's context is in place
		return &rj.Tern{C: &rj.Bin{Op: "==", L: &rj.Dot{}, R: rj.S("CTX")}, A: rj.S("/missing.jet"), B: rj.S(abs)}, true
	}
}

var c09Referrers = []string{"/t.jet", "/sub/t.jet", "/sub/deep/t.jet"}

func c09Build(kind, site1, site2, ctx, nameForm, ref, callee int, site3 ...int) *rj.Program {
	referrer := c09Referrers[ref]
	nameX, ok := c09Name(nameForm, "/sub/c.jet", referrer, kind)
	if !ok {
		return nil
	}
	calleeFiles, _ := c09Callee(callee, "/sub/c.jet")
	var ctxX rj.Expr
	switch ctx {
	case 1:
		ctxX = rj.S("CTX")
	case 2:
		ctxX = rj.V("nilv") // a context that is given but evaluates to nil: the callee's '.' is nil, not the caller's
	}
	var call []rj.Stmt
	switch kind {
	case 0:
		call = []rj.Stmt{rj.T("("), &rj.Include{Name: nameX, Ctx: ctxX}, rj.T(")")}
	case 1:
		call = []rj.Stmt{rj.Let("res", &rj.Exec{Name: nameX, Ctx: ctxX}), rj.T("(res="), rj.E(&rj.Tern{C: &rj.IsSet{Args: []rj.Expr{rj.V("res")}}, A: rj.V("res"), B: rj.S("<nil>")}), rj.T(")")}
	case 2:
		call = []rj.Stmt{rj.T("("), rj.E(&rj.IncIf{Name: nameX, Ctx: ctxX}), rj.T(")")}
	case 4: // exec as an argument of isset: a failure inside is swallowed, and nothing of the execution may stay behind
		call = []rj.Stmt{rj.T("("), rj.E(&rj.Tern{C: &rj.IsSet{Args: []rj.Expr{rj.F(&rj.Exec{Name: nameX, Ctx: ctxX}, "Total")}}, A: rj.S("set"), B: rj.S("unset")}), rj.T(")")}
	case 3:
		call = []rj.Stmt{rj.T("("), &rj.If{Cond: &rj.IncIf{Name: nameX, Ctx: ctxX}, Then: []rj.Stmt{rj.T("+yes")}, HasElse: true, Else: []rj.Stmt{rj.T("+no")}}, rj.T(")")}
	}
	var extra []*rj.File
	if len(site3) > 0 {
		call = c09Site(site3[0], call, &extra, 3)
	}
	body := c09Site(site1, c09Site(site2, call, &extra, 2), &extra, 1)
	// the caller's own state, probed after the call
	pre := []rj.Stmt{rj.Let("cv", rj.S("caller")), &rj.BlockDef{Name: "CB", Body: []rj.Stmt{rj.T("caller-CB")}}, &rj.BlockDef{Name: "CALLERONLY", Body: []rj.Stmt{rj.T("only")}}, rj.T("|")}
	post := []rj.Stmt{rj.T("|cv="), rj.E(rj.V("cv")), rj.T(",.="), rj.E(&rj.Dot{}), rj.T(",x="), rj.E(&rj.Tern{C: &rj.IsSet{Args: []rj.Expr{rj.V("x")}}, A: rj.S("leaked"), B: rj.S("unset")}), rj.T(","), &rj.Yield{Name: "CB"}}
	all := append(append(pre, body...), post...)
	files := []*rj.File{{Name: referrer, Body: all}}
	files = append(files, calleeFiles...)
	files = append(files, extra...)
	p := &rj.Program{Files: files, Entry: referrer}
	p.Mk = func(log *[]string) rj.Inputs {
		in := c09Mk(log)
		in.Vars["nameVar"] = "/sub/c.jet"
		return in
	}
	return p
}

var c09Space = registerSpace(&e1Space{
	Prop: "C09", Name: "calls",
	N: func(th bool) int64 {
		n := int64(5 * c09NSites * c09NSites * 3 * c09NNames * 3 * c09NCallee)
		if th {
			n *= c09NSites // call sites nested three deep
		}
		return n
	},
	Gen: func(i int64, th bool) *rj.Program {
		ix := core.Radix(i, 5, c09NSites, c09NSites, 3, c09NNames, 3, c09NCallee, c09NSites)
		if ix[3] == 2 && (ix[4] != 0 || ix[5] != 0) {
			return nil // the nil context only with the absolute name from the root referrer
		}
		if th {
			return c09Build(ix[0], ix[1], ix[2], ix[3], ix[4], ix[5], ix[6], ix[7])
		}
		return c09Build(ix[0], ix[1], ix[2], ix[3], ix[4], ix[5], ix[6])
	},
	Extra: e1EveryEntry,
})

func C09(r *core.Run) map[string]interface{} {
	r.Rule = "call kind (include, exec, includeIfExists as action and as condition, exec inside isset) x call site nested <=2 deep over 7 frames (top, range, block, try, include, content, if) x context x 6 name forms (incl. one computed from the caller's context) x 3 referrer depths x 31 callee shapes (return at every position, return followed by each statement kind, extends chains 1-3, declarations, caller blocks, failing, missing); after the call the caller probes its variables, context and blocks; distinct = distinct reference outcomes"
	runSpace(r, c09Space)
	return map[string]interface{}{"callee_shapes": c09NCallee, "sites": c09NSites, "traces_validated_against_impl": r.Evals()}
}

func init() {
	Registry["C09"] = C09
	Replayers["C09"] = replayE1
}
