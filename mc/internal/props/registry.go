// Package props holds one file per property: alphabet, bounds and oracle.
package props

import (
	"encoding/json"
	"fmt"
	"os"
	"os/exec"
	"time"

	"verif/mc/internal/core"
)

// Registry maps a property id to its check. A check returns the coverage map.
var Registry = map[string]func(r *core.Run) map[string]interface{}{}

// Replayers re-run one recorded case; they return "" when the case now conforms.
var Replayers = map[string]func(c json.RawMessage) string{}

// Replay re-runs the case stored in a replay file without the explorer.
func Replay(path string) int {
	b, err := os.ReadFile(path)
	if err != nil {
		fmt.Fprintln(os.Stderr, err)
		return 2
	}
	var f struct {
		Property string          `json:"property"`
		Sig      string          `json:"sig"`
		Case     json.RawMessage `json:"case"`
	}
	if err := json.Unmarshal(b, &f); err != nil {
		fmt.Fprintln(os.Stderr, err)
		return 2
	}
	if f.Sig == "check-process-died" {
		// there is no single input to replay: the whole check is the reproduction
		var c struct{ Tier string `json:"tier"` }
		_ = json.Unmarshal(f.Case, &c)
		exe, _ := os.Executable()
		cmd := exec.Command(exe, f.Property, c.Tier)
		cmd.Stdout, cmd.Stderr = os.Stdout, os.Stderr
		if err := cmd.Run(); err != nil {
			return 1
		}
		return 0
	}
	rp, ok := Replayers[f.Property]
	if !ok {
		fmt.Fprintln(os.Stderr, "no replayer for", f.Property)
		return 2
	}
	done := make(chan string, 1)
	go func() { done <- rp(f.Case) }()
	var msg string
	select {
	case msg = <-done:
	case <-time.After(core.HangLimit()):
		msg = fmt.Sprintf("the replayed call does not return (no answer within %s)", core.HangLimit())
	}
	if msg != "" {
		fmt.Printf("VIOLATION property=%s replay=%s  # %s\n", f.Property, path, msg)
		return 1
	}
	fmt.Printf("replay %s: conforms\n", path)
	return 0
}

// Worker is the entry point of crash-isolated worker subprocesses (C02, C20).
var Workers = map[string]func(args []string) int{}

func Worker(args []string) int {
	if len(args) == 0 {
		return 2
	}
	w, ok := Workers[args[0]]
	if !ok {
		return 2
	}
	return w(args[1:])
}
