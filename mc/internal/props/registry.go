// Package props holds one file per property: alphabet, bounds and oracle.
package props

import (
	"encoding/json"
	"fmt"
	"os"

	"verif/mc/internal/core"
)

// Registry maps a property id to its check. A check returns the coverage map.
var Registry = map[string]func(r *core.Run) map[string]interface{}{}

// Replayers re-run one recorded case; they return "" when the case now conforms.
var Replayers = map[string]func(c json.RawMessage) string{}

// Replay re-runs the case stored in a replay file without the explorer.
func Replay(path string) int {
	b, err := os.ReadFile(path)
	if err != nil {
		fmt.Fprintln(os.Stderr, err)
		return 2
	}
	var f struct {
		Property string          `json:"property"`
		Case     json.RawMessage `json:"case"`
	}
	if err := json.Unmarshal(b, &f); err != nil {
		fmt.Fprintln(os.Stderr, err)
		return 2
	}
	rp, ok := Replayers[f.Property]
	if !ok {
		fmt.Fprintln(os.Stderr, "no replayer for", f.Property)
		return 2
	}
	if msg := rp(f.Case); msg != "" {
		fmt.Printf("VIOLATION property=%s replay=%s  # %s\n", f.Property, path, msg)
		return 1
	}
	fmt.Printf("replay %s: conforms\n", path)
	return 0
}

// Worker is the entry point of crash-isolated worker subprocesses (C02, C20).
var Workers = map[string]func(args []string) int{}

func Worker(args []string) int {
	if len(args) == 0 {
		return 2
	}
	w, ok := Workers[args[0]]
	if !ok {
		return 2
	}
	return w(args[1:])
}
