package props

import (
	"bytes"
	"encoding/json"
	"fmt"
	"reflect"
	"strings"

	"github.com/CloudyKit/jet/v6"

	"verif/mc/internal/core"
	rj "verif/mc/internal/refjet"
)

// C18 — the Go-side Runtime and Arguments API mirrors template semantics.

func c18Iface(v reflect.Value) interface{} {
	if !v.IsValid() {
		return nil
	}
	return v.Interface()
}

func c18Funcs(vars map[string]interface{}) {
	vars["rtLet"] = jet.Func(func(a jet.Arguments) reflect.Value {
		a.Runtime().Let(a.Get(0).String(), c18Iface(a.Get(1)))
		return reflect.Value{}
	})
	vars["rtSet"] = jet.Func(func(a jet.Arguments) reflect.Value {
		if err := a.Runtime().Set(a.Get(0).String(), c18Iface(a.Get(1))); err != nil {
			panic(err)
		}
		return reflect.Value{}
	})
	vars["rtSetOrLet"] = jet.Func(func(a jet.Arguments) reflect.Value {
		a.Runtime().SetOrLet(a.Get(0).String(), c18Iface(a.Get(1)))
		return reflect.Value{}
	})
	vars["rtLetGlobal"] = jet.Func(func(a jet.Arguments) reflect.Value {
		a.Runtime().LetGlobal(a.Get(0).String(), c18Iface(a.Get(1)))
		return reflect.Value{}
	})
	vars["rtResolve"] = jet.Func(func(a jet.Arguments) reflect.Value { return a.Runtime().Resolve(a.Get(0).String()) })
	vars["rtMustResolve"] = jet.Func(func(a jet.Arguments) reflect.Value { return a.Runtime().MustResolve(a.Get(0).String()) })
	vars["rtContext"] = jet.Func(func(a jet.Arguments) reflect.Value { return a.Runtime().Context() })
	vars["rtYield"] = jet.Func(func(a jet.Arguments) reflect.Value {
		a.Runtime().YieldBlock(a.Get(0).String(), c18Iface(a.Get(1)))
		return reflect.Value{}
	})
}

func c18Mk(cfg int) func(log *[]string) rj.Inputs {
	return func(log *[]string) rj.Inputs {
		vars := map[string]interface{}{"cT": true, "rS": []string{"e1", "e2"}}
		c18Funcs(vars)
		in := rj.Inputs{Vars: vars, Data: "D", Globals: map[string]interface{}{}}
		switch cfg {
		case 1:
			vars["x"] = "VM"
		case 2:
			in.Globals["x"] = "GL"
		case 3: // nil VarMap: everything the template needs comes from the globals
			in.Globals = vars
			in.Vars = nil
		}
		return in
	}
}

type c18B struct {
	n     int
	files []*rj.File
	lib   []rj.Stmt
}

func (b *c18B) val(p string) rj.Expr { b.n++; return rj.S(fmt.Sprintf("%s%d", p, b.n)) }

const c18NOps = 12

func (b *c18B) op(k int) []rj.Stmt {
	switch k {
	case 0:
		return []rj.Stmt{&rj.API{Op: "Let", Name: "x", Val: b.val("L")}}
	case 1:
		return []rj.Stmt{&rj.API{Op: "Set", Name: "x", Val: b.val("S")}}
	case 2:
		return []rj.Stmt{&rj.API{Op: "SetOrLet", Name: "x", Val: b.val("O")}}
	case 3:
		return []rj.Stmt{&rj.API{Op: "LetGlobal", Name: "x", Val: b.val("G")}}
	case 4:
		return []rj.Stmt{rj.T("R="), &rj.API{Op: "Resolve", Name: "x"}, rj.T(";")}
	case 5:
		return []rj.Stmt{rj.T("M="), &rj.API{Op: "MustResolve", Name: "x"}, rj.T(";")}
	case 6:
		return []rj.Stmt{rj.Let("x", b.val("l"))}
	case 7:
		return []rj.Stmt{rj.Set("x", b.val("s"))}
	case 8:
		return c07Read("x")
	case 9:
		return []rj.Stmt{rj.T("C="), &rj.API{Op: "Context"}, rj.T(";")}
	case 10:
		return []rj.Stmt{&rj.API{Op: "Let", Name: "y", Val: b.val("Y")}, rj.T("y="), &rj.API{Op: "Resolve", Name: "y"}, rj.T(";")}
	default:
		return []rj.Stmt{&rj.API{Op: "LetGlobal", Name: "z", Val: b.val("Z")}}
	}
}

// twin replaces API operations that have an exact syntax counterpart.
func c18Twin(l []rj.Stmt) ([]rj.Stmt, bool) {
	var out []rj.Stmt
	for _, s := range l {
		switch s := s.(type) {
		case *rj.API:
			switch s.Op {
			case "Let":
				out = append(out, rj.Let(s.Name, s.Val))
			case "Set":
				out = append(out, rj.Set(s.Name, s.Val))
			case "Context":
				out = append(out, rj.E(&rj.Dot{}))
			case "MustResolve":
				out = append(out, rj.E(rj.V(s.Name)))
			case "Resolve":
				out = append(out, rj.E(&rj.Tern{C: &rj.IsSet{Args: []rj.Expr{rj.V(s.Name)}}, A: rj.V(s.Name), B: rj.S("")}))
			default:
				return nil, false
			}
		case *rj.If:
			t, ok1 := c18Twin(s.Then)
			e, ok2 := c18Twin(s.Else)
			if !ok1 || !ok2 {
				return nil, false
			}
			c := *s
			c.Then, c.Else = t, e
			out = append(out, &c)
		case *rj.Range:
			t, ok := c18Twin(s.Body)
			if !ok {
				return nil, false
			}
			c := *s
			c.Body = t
			out = append(out, &c)
		case *rj.BlockDef:
			t, ok := c18Twin(s.Body)
			if !ok {
				return nil, false
			}
			c := *s
			c.Body = t
			out = append(out, &c)
		default:
			out = append(out, s)
		}
	}
	return out, true
}

const c18NSites = 7

func (b *c18B) site(k int, inner []rj.Stmt) []rj.Stmt {
	b.n++
	id := b.n
	switch k {
	case 0:
		return inner // top level, before any :=
	case 1:
		return append([]rj.Stmt{rj.Let("first", rj.S("f"))}, inner...) // top level after a :=
	case 2:
		return []rj.Stmt{&rj.If{Cond: rj.V("cT"), Then: inner}}
	case 3:
		return []rj.Stmt{&rj.Range{X: rj.V("rS"), Body: inner}}
	case 4:
		return []rj.Stmt{&rj.BlockDef{Name: fmt.Sprintf("b%d", id), Body: inner}}
	case 5:
		fn := fmt.Sprintf("/inc%d.jet", id)
		b.files = append(b.files, &rj.File{Name: fn, Body: inner})
		return []rj.Stmt{&rj.Include{Name: rj.S(fn)}}
	default:
		return []rj.Stmt{&rj.If{Init: rj.Let("q", rj.S("q")), Cond: rj.V("cT"), Then: inner}}
	}
}

func c18Program(b *c18B, body []rj.Stmt, cfg int, nilVars bool) *rj.Program {
	files := append([]*rj.File{{Name: "/t.jet", Body: body}}, b.files...)
	mk := c18Mk(cfg)
	p := &rj.Program{Files: files, Entry: "/t.jet", Mk: mk}
	return p
}

var c18Seq = registerSpace(&e1Space{
	Prop: "C18", Name: "scopes",
	N: func(th bool) int64 {
		seqs := int64(1 + c18NOps + c18NOps*c18NOps + c18NOps*c18NOps*c18NOps)
		if th {
			seqs += pow(c18NOps, 4) // sequences of four operations
		}
		return seqs * c18NSites * 4 * 3
	},
	Gen: func(i int64, th bool) *rj.Program {
		seqs := int64(1 + c18NOps + c18NOps*c18NOps + c18NOps*c18NOps*c18NOps)
		if th {
			seqs += pow(c18NOps, 4)
		}
		si := i % seqs
		i /= seqs
		site := int(i % c18NSites)
		i /= c18NSites
		cfg := int(i % 4)
		pre := int(i / 4) // 0: nothing declared outside; 1: x declared in an enclosing scope
		n := 0
		for n = 0; n <= 4; n++ {
			if si < pow(c18NOps, int64(n)) {
				break
			}
			si -= pow(c18NOps, int64(n))
		}
		b := &c18B{}
		var inner []rj.Stmt
		for j := 0; j < n; j++ {
			inner = append(inner, b.op(int(si%c18NOps))...)
			si /= c18NOps
		}
		var body []rj.Stmt
		if pre >= 1 {
			if site == 0 {
				return nil // "before any :=" excludes an outer declaration
			}
			if pre == 1 {
				body = append(body, rj.Let("x", rj.S("OUTER")))
			} else {
				body = append(body, rj.Let("x", rj.Nil())) // declared, but currently nil
			}
		}
		body = append(body, b.site(site, inner)...)
		body = append(body, rj.T("|"))
		body = append(body, c07Read("x")...)
		body = append(body, c07Read("y")...)
		body = append(body, c07Read("z")...)
		return c18Program(b, body, cfg, false)
	},
	Extra:      c18TwinOracle,
	Quirks:     []string{"api-let-ignores-unopened-list-scope"},
	QuirkExtra: c07VarMapOracle,
})

// c18TwinOracle: the same program with every API call replaced by the syntax it mirrors,
// executed on the implementation, must give the same output and VarMap.
func c18TwinOracle(p *rj.Program, ref rj.Result, got rj.ImplResult) string {
	if why := c07VarMapOracle(p, ref, got); why != "" {
		return why
	}
	q := &rj.Program{Entry: p.Entry, Mk: p.Mk}
	for _, f := range p.Files {
		body, ok := c18Twin(f.Body)
		if !ok {
			return ""
		}
		q.Files = append(q.Files, &rj.File{Name: f.Name, Extends: f.Extends, Imports: f.Imports, Body: body})
	}
	tw := rj.RunImpl(q, rj.Render(q, nil))
	if tw.Failed() != got.Failed() || tw.Out != got.Out {
		return fmt.Sprintf("syntax twin renders %q (failed=%v), the API version %q (failed=%v)", tw.Out, tw.Failed(), got.Out, got.Failed())
	}
	return ""
}

// YieldBlock: parameter-less blocks that print '.', from several call sites, nil / non-nil context
var c18Yield = registerSpace(&e1Space{
	Prop: "C18", Name: "yieldblock",
	N:    func(th bool) int64 { return c18NSites * 3 * 3 * 2 },
	Gen: func(i int64, th bool) *rj.Program {
		site := int(i % c18NSites)
		i /= c18NSites
		ctx := int(i % 3)
		i /= 3
		home := int(i % 3)
		twice := i/3 == 1
		b := &c18B{}
		blk := &rj.BlockDef{Name: "yb", Body: []rj.Stmt{rj.T("<yb .="), rj.E(&rj.Dot{}), rj.Let("inblock", rj.S("ib")), rj.T(">")}}
		call := &rj.API{Op: "Yield", Name: "yb"}
		switch ctx {
		case 1:
			call.Val = rj.S("CTX")
		case 2:
			call.Val = rj.N(0) // a non-nil but falsy context
		}
		inner := []rj.Stmt{rj.T("["), call, rj.T("]")}
		if twice {
			inner = append(inner, call)
		}
		inner = append(inner, rj.T(".="), rj.E(&rj.Dot{}))
		body := b.site(site, inner)
		body = append(body, c07Read("inblock")...)
		main := &rj.File{Name: "/t.jet", Body: body}
		files := []*rj.File{main}
		switch home {
		case 0:
			main.Imports = []string{"/lib.jet"}
			files = append(files, &rj.File{Name: "/lib.jet", Body: []rj.Stmt{blk}})
		case 1:
			main.Extends = "/base.jet"
			files = append(files, &rj.File{Name: "/base.jet", Body: body})
			main.Body = []rj.Stmt{blk}
		default:
			main.Body = append([]rj.Stmt{rj.T("def:"), blk, rj.T("|")}, body...)
		}
		files = append(files, b.files...)
		for _, f := range b.files {
			if home == 0 {
				f.Imports = nil
			}
		}
		return &rj.Program{Files: files, Entry: "/t.jet", Mk: c18Mk(0)}
	},
})

// ---- Arguments: Get / NumOfArguments / IsSet / ParseInto see what a reflected function receives ----

type c18ArgCase struct {
	Source string `json:"source"`
	Want   string `json:"want"`
	WantErr bool  `json:"want_error"`
	Got    string `json:"got,omitempty"`
	Err    string `json:"error,omitempty"`
}

func c18ArgRun(src string) (string, error, interface{}) {
	ld := jet.NewInMemLoader()
	ld.Set("/t.jet", src)
	set := jet.NewSet(ld, jet.WithSafeWriter(nil))
	var log []string
	v := c14Vars(&log)
	// the reflected reference function and its jet.Func mirrors
	v.Set("g3", func(s string, i int, f float64) string { return fmt.Sprintf("(%s %d %v)", s, i, f) })
	v.SetFunc("pinto", func(a jet.Arguments) reflect.Value {
		var s string
		var i int
		var f float64
		if err := a.ParseInto(&s, &i, &f); err != nil {
			panic(err)
		}
		if a.NumOfArguments() != 3 {
			a.Panicf("pinto wants 3 arguments, has %d", a.NumOfArguments())
		}
		return reflect.ValueOf(fmt.Sprintf("(%s %d %v)", s, i, f))
	})
	v.SetFunc("getn", func(a jet.Arguments) reflect.Value {
		if a.NumOfArguments() != 3 {
			a.Panicf("getn wants 3 arguments, has %d", a.NumOfArguments())
		}
		i, f := a.Get(1), a.Get(2)
		if !i.IsValid() || !f.IsValid() {
			a.Panicf("invalid argument")
		}
		return reflect.ValueOf(fmt.Sprintf("(%v %v %v)", a.Get(0), i.Convert(reflect.TypeOf(0)), f.Convert(reflect.TypeOf(0.0))))
	})
	v.SetFunc("setbits", func(a jet.Arguments) reflect.Value {
		s := fmt.Sprintf("n=%d:", a.NumOfArguments())
		for i := -1; i <= a.NumOfArguments(); i++ {
			if a.IsSet(i) {
				s += "1"
			} else {
				s += "0"
			}
		}
		return reflect.ValueOf(s)
	})
	var buf bytes.Buffer
	var err error
	var pan interface{}
	func() {
		defer func() {
			if x := recover(); x != nil {
				pan = x
			}
		}()
		t, e := set.GetTemplate("/t.jet")
		if e != nil {
			err = fmt.Errorf("parse: %w", e)
			return
		}
		err = t.Execute(&buf, v, nil)
	}()
	return buf.String(), err, pan
}

func c18ArgCases() []c18ArgCase {
	var out []c18ArgCase
	strs := []c14Arg{{`"s"`, "s", ""}, {"sv", "var", ""}, {`up("n")`, "up<n>", ""}}
	ints := []c14Arg{{"i3", 3, ""}, {"4", 4.0, ""}, {"inc(2)", 3, ""}}
	flts := []c14Arg{{"2.5", 2.5, ""}, {"i3", 3, ""}}
	for _, s := range strs {
		for _, i := range ints {
			for _, f := range flts {
				args := []c14Arg{s, i, f}
				iv, _ := c14Convert(i.v, reflect.Int)
				fv, _ := c14Convert(f.v, reflect.Float64)
				want := fmt.Sprintf("(%s %d %v)", s.v, iv.Interface(), fv.Interface())
				for _, fn := range []string{"g3", "pinto", "getn"} {
					for _, src := range c14Forms(fn, args) {
						out = append(out, c18ArgCase{Source: src, Want: want})
					}
				}
				for _, src := range c14Forms("setbits", args) {
					out = append(out, c18ArgCase{Source: src, Want: "n=3:01110"})
				}
			}
		}
	}
	// too few / too many, nil and undefined arguments
	out = append(out,
		c18ArgCase{Source: `{{ pinto("s", 1) }}`, WantErr: true},
		c18ArgCase{Source: `{{ "s" | pinto(1) }}`, WantErr: true},
		c18ArgCase{Source: `{{ pinto("s", 1, 2, 3) }}`, WantErr: true},
		c18ArgCase{Source: `{{ "s" | pinto(1, 2, 3) }}`, WantErr: true},
		c18ArgCase{Source: `{{ g3("s", 1) }}`, WantErr: true},
		c18ArgCase{Source: `{{ "s" | g3(1, 2, 3) }}`, WantErr: true},
		c18ArgCase{Source: `{{ pinto("s", "x", 2) }}`, WantErr: true},
		c18ArgCase{Source: `{{ g3("s", "x", 2) }}`, WantErr: true},
		c18ArgCase{Source: `{{ pinto(nil, 1, 2) }}`, WantErr: true},
		c18ArgCase{Source: `{{ setbits() }}`, Want: "n=0:00"},
		c18ArgCase{Source: `{{ setbits(sv) }}`, Want: "n=1:010"},
		c18ArgCase{Source: `{{ sv | setbits }}`, Want: "n=1:010"},
		c18ArgCase{Source: `{{ sv | setbits(_) }}`, Want: "n=1:010"},
		c18ArgCase{Source: `{{ setbits(undefinedName) }}`, Want: "n=1:000"},
		c18ArgCase{Source: `{{ setbits(undefinedName, sv) }}`, Want: "n=2:0010"},
		c18ArgCase{Source: `{{ sv | setbits(undefinedName) }}`, Want: "n=2:0100"},
		c18ArgCase{Source: `{{ sv | setbits(undefinedName, _) }}`, Want: "n=2:0010"},
		c18ArgCase{Source: `{{ setbits(sv.nope, i3) }}`, Want: "n=2:0010"},
	)
	return out
}

func C18(r *core.Run) map[string]interface{} {
	r.Rule = "every sequence of <=3 operations over {Let, Set, SetOrLet, LetGlobal, Resolve, MustResolve, Context via the Go API; template := = read} x 7 call sites (top level before any :=, after one, if, range, block, include, if-let) x 3 variable origins x outer declaration or not, checked against the reference (API ops given their documented syntax meaning), against the caller's VarMap, and against the syntax twin executed on the implementation; YieldBlock for 3 contexts x 3 block homes x 7 sites x once/twice; Arguments.Get/NumOfArguments/IsSet/ParseInto in every call shape against a reflected function; distinct = distinct reference outcomes"
	runSpace(r, c18Seq)
	runSpace(r, c18Yield)
	cases := c18ArgCases()
	r.ParallelFor(int64(len(cases)), func(i int64) {
		cs := cases[i]
		out, err, pan := c18ArgRun(cs.Source)
		r.Eval()
		cs.Got = out
		if err != nil {
			cs.Err = err.Error()
		}
		if pan != nil || (cs.WantErr && err == nil) || (!cs.WantErr && (err != nil || out != cs.Want)) {
			r.Violate(core.Violation{What: fmt.Sprintf("%s rendered %q (error %v panic %v); a reflected function receives %q / error=%v", cs.Source, out, err, pan, cs.Want, cs.WantErr), Case: map[string]interface{}{"args": cs}})
			return
		}
		r.Distinct("args:" + cs.Want + fmt.Sprint(cs.WantErr))
		if i%41 == 0 {
			r.Sample(cs)
		}
	})
	return map[string]interface{}{"ops": c18NOps, "sites": c18NSites, "argument_cases": len(cases), "traces_validated_against_impl": r.Evals()}
}

func init() {
	Registry["C18"] = C18
	Replayers["C18"] = func(raw json.RawMessage) string {
		var probe struct {
			Args *c18ArgCase `json:"args"`
		}
		if json.Unmarshal(raw, &probe) == nil && probe.Args != nil {
			cs := probe.Args
			out, err, pan := c18ArgRun(cs.Source)
			if pan != nil || (cs.WantErr && err == nil) || (!cs.WantErr && (err != nil || out != cs.Want)) {
				return fmt.Sprintf("%s rendered %q (error %v panic %v), want %q / error=%v", cs.Source, out, err, pan, cs.Want, cs.WantErr)
			}
			return ""
		}
		return replayE1(raw)
	}
	_ = strings.Join
}
