package props

import (
	"bytes"
	"os/exec"
	"path/filepath"
	"strings"

	"verif/mc/internal/core"
)

// C11 is decided by cmd/c11 (built with the sync overlay, see checks/C11.sh). This fallback only runs when
// the overlay no longer compiles against /repo's sources: the free-running race pass alone, hooks off.
func c11RaceOnly(r *core.Run) map[string]interface{} {
	r.Prop = "C11"
	iters := "300"
	if r.Thorough() {
		iters = "3000"
	}
	cmd := exec.Command(filepath.Join(core.VerifDir, "bin", "mc-c11race"), iters)
	var out bytes.Buffer
	cmd.Stdout, cmd.Stderr = &out, &out
	err := cmd.Run()
	s := out.String()
	for _, l := range strings.Split(s, "\n") {
		if strings.Contains(l, "iterations") {
			r.Eval()
			r.Distinct(l)
		}
	}
	if strings.Contains(s, "DATA RACE") || err != nil || !strings.Contains(s, "RACE-PASS-OK") {
		if len(s) > 3000 {
			s = s[:3000]
		}
		r.Violate(core.Violation{What: "free-running race pass failed", Case: map[string]interface{}{"output": s}})
	}
	r.Sample("free-running race pass only (the sync overlay did not compile)")
	r.Rule = "fallback: the sync overlay did not compile against the current sources; only the free-running -race pass over the 7 scenarios ran (sampling, not exhaustive)"
	return map[string]interface{}{"hooks": "off", "exhaustive": false}
}

func init() { Registry["C11-raceonly"] = c11RaceOnly }
