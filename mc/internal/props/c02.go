package props

import (
	"sync"
	"encoding/json"
	"fmt"
	"os"
	"path/filepath"
	"runtime"
	"runtime/debug"
	"strconv"
	"strings"
	"time"

	"github.com/CloudyKit/jet/v6"

	"verif/mc/internal/core"
)

// C02 — parsing is total: any source yields a template or an error, never a crash, a hang
// or a leaked goroutine; structural mistakes are always reported.

var c02Tokens = []string{
	"if", "else", "end", "range", "block", "yield", "content", "include", "extends", "import", "try", "catch", "return",
	"and", "or", "not", "nil", "true", "msg", "trans",
	"a", "_", "_a", "_é", "é", ".f", ".", "1", "-1", "1.5", "0x", "1e", "٣", "𝟑x", "1i", ".5", "..", "'\\n'", "'ab'", `"\\q"`, `"s"`, `"`, "`r`", "`", "'c'", "'",
	"+", "-", "*", "/", "%", "<", "<=", ">", "==", "!=", "!", "&&", "||", "&", "|", "?", ":", ":=", "=", ",", ";",
	"(", ")", "[", "]", " ", "\n", "#", "\xff", "{", "}",
}

var c02Segments = []string{
	"text", "{* c *}", "{* unterminated", "{{if a}}", "{{else}}", "{{else if a}}", "{{end}}", "{{range a}}", "{{range i, v := a}}",
	"{{try}}", "{{catch}}", "{{catch e}}", "{{catch 1}}", "{{block b()}}", "{{yield b()}}", "{{yield b() content}}", "{{content}}",
	"{{yield content}}", `{{extends "x"}}`, `{{import "x"}}`, `{{include "x"}}`, "{{return 1}}", "{{x}}", "{{x := 1}}", "{{x", "{{", "}}", " ",
}

var c02Bytes = []byte{'a', ' ', '\n', '{', '}', '*', '-', '"', '`', '\'', '.', '_', '(', ')', '|', 0x80, 0xC3, 0xA9, 0xFF, 0x00}

type c02Delims struct{ Name, L, R, LC, RC string }

var c02Cfgs = []c02Delims{
	{"default", "", "", "", ""},
	{"brackets", "[[", "]]", "", ""},
	{"asp", "<%", "%>", "", ""},
	{"html-comment", "", "", "<!--", "-->"},
	{"multibyte", "«", "»", "", ""},
	{"single-char", "{", "}", "", ""},
	{"percent-hash", "{%", "%}", "{#", "#}"},
}

func (c c02Delims) l() string { if c.L == "" { return "{{" }; return c.L }
func (c c02Delims) r() string { if c.R == "" { return "}}" }; return c.R }
func (c c02Delims) lc() string { if c.LC == "" { return "{*" }; return c.LC }
func (c c02Delims) rc() string { if c.RC == "" { return "*}" }; return c.RC }

// re-spell a source written with the default delimiters for configuration c
func (c c02Delims) respell(s string) string {
	rep := strings.NewReplacer("{{", "\x01", "}}", "\x02", "{*", "\x03", "*}", "\x04")
	s = rep.Replace(s)
	return strings.NewReplacer("\x01", c.l(), "\x02", c.r(), "\x03", c.lc(), "\x04", c.rc()).Replace(s)
}

var c02Corpus = []string{
	`hello {{ . }} world`,
	`{{ if a }}x{{ else if b }}y{{ else }}z{{ end }}`,
	`{{ range i, v := s }}{{ i }}={{ v }};{{ else }}none{{ end }}`,
	`{{ x := 1 }}{{ x = x + 2 * 3 - 4 / 2 % 5 }}{{ x }}`,
	`{{ block b(p="d", q) .ctx }}body{{ yield content }}{{ content }}default{{ end }}`,
	`{{ yield b(q=1) content }}c{{ end }}{{ yield b(p="x", q=2) . }}`,
	`{{ try }}{{ f() }}{{ catch err }}{{ err.Error() }}{{ end }}`,
	`{{ include "./x.jet" . }}{{ return a ? b : c }}`,
	`{{ "s" | lower | f: 1, 2 | g(_, 3) | raw }}`,
	`{{ m["k"].f[0][1:2].g(1, "a", nil, true) }}`,
	`{{ isset(a.b, c["d"]) && !x || (y == 1.5) and not z or w != "q" }}`,
	"{* comment *}text{{- \"trim\" -}} more\n{{ a }}\n",
	"{{ v, ok := m[k] }}{{ if ok }}{{ v }}{{ end }}",
	"{{ _ := f() }}{{ _ = g() }}{{ a, b := 1, 2 }}",
	`{{ 'c' }}{{ 0x1F }}{{ 1e3 }}{{ -1 }}{{ +2 }}{{ .5 }}` + "{{ `raw` }}",
	`{{ .Field.Sub }}{{ .Method() }}{{ a.b.c }}{{ len(x) }}{{ x[:] }}{{ x[1:] }}{{ x[:2] }}`,
}

// ---------- one parse, with the totality oracle ----------

type c02Input struct {
	Cfg   string            `json:"config"`
	Src   string            `json:"source"`
	Files map[string]string `json:"files,omitempty"`
	MustFail bool           `json:"must_fail,omitempty"`
}

func c02Set(cfg c02Delims, files map[string]string) *jet.Set {
	ld := jet.NewInMemLoader()
	for n, s := range files {
		ld.Set(n, s)
	}
	var opts []jet.Option
	if cfg.L != "" {
		opts = append(opts, jet.WithDelims(cfg.L, cfg.R))
	}
	if cfg.LC != "" {
		opts = append(opts, jet.WithCommentDelims(cfg.LC, cfg.RC))
	}
	return jet.NewSet(ld, opts...)
}

var c02BaseGoroutines int

// c02Check parses one input and applies the oracle; "" = ok.
func c02Check(cfg c02Delims, in c02Input) (why, class string) {
	files := map[string]string{"/t.jet": in.Src}
	for n, s := range in.Files {
		files[n] = s
	}
	set := c02Set(cfg, files)
	var t *jet.Template
	var err error
	var pan interface{}
	func() {
		defer func() { pan = recover() }()
		t, err = set.GetTemplate("/t.jet")
	}()
	if pan != nil {
		c02Leak() // a panicking parse usually also strands its lexer goroutine: attribute it here
		return fmt.Sprintf("GetTemplate panicked: %v", pan), "panic:" + trunc(fmt.Sprint(pan), 60)
	}
	// same through Set.Parse
	var t2 *jet.Template
	var err2 error
	func() {
		defer func() { pan = recover() }()
		t2, err2 = set.Parse("/t.jet", in.Src)
	}()
	if pan != nil {
		c02Leak()
		return fmt.Sprintf("Parse panicked: %v", pan), "panic:" + trunc(fmt.Sprint(pan), 60)
	}
	if (err == nil) != (err2 == nil) {
		return fmt.Sprintf("GetTemplate and Parse disagree: %v vs %v", err, err2), "getparse-disagree"
	}
	_ = t2
	switch {
	case err == nil && (t == nil || t.Root == nil):
		return "no error but no usable template", "nil-template"
	case err != nil && t != nil && t.Root != nil:
		// a template next to an error is tolerated only if the error is non-nil; nothing to check
	}
	if err == nil && in.MustFail {
		return "a structurally broken source was accepted without error", "accepted-broken"
	}
	if err != nil {
		if w := c02ErrFormat(err.Error(), files); w != "" {
			return w, "error-format"
		}
	}
	if leak := c02Leak(); leak != "" {
		return leak, "goroutine-leak"
	}
	if err == nil {
		return "", "parsed"
	}
	return "", "error:" + c02Norm(err.Error())
	return "", ""
}

// c02Leak: no goroutine may be left behind. A leaked lexer goroutine is parked forever on its channel
// send, so waiting for the count to settle is not a timing oracle; after a report the count is re-based.
func c02Leak() string {
	if runtime.NumGoroutine() <= c02BaseGoroutines {
		return ""
	}
	for i := 0; i < 200 && runtime.NumGoroutine() > c02BaseGoroutines; i++ {
		runtime.Gosched() // let the lexer goroutine run to its exit
	}
	deadline := time.Now().Add(2 * time.Second)
	for runtime.NumGoroutine() > c02BaseGoroutines && time.Now().Before(deadline) {
		runtime.Gosched()
		time.Sleep(100 * time.Microsecond)
	}
	if n := runtime.NumGoroutine(); n > c02BaseGoroutines {
		extra := n - c02BaseGoroutines
		c02BaseGoroutines = n
		return fmt.Sprintf("%d goroutine(s) still running after the parse returned", extra)
	}
	return ""
}

// c02Norm reduces an error message to its class (names, numbers and quoted text removed).
func c02Norm(m string) string {
	var b []byte
	inq := byte(0)
	for i := 0; i < len(m) && len(b) < 60; i++ {
		c := m[i]
		switch {
		case inq != 0:
			if c == inq {
				inq = 0
			}
		case c == '\'' || c == '"':
			inq = c
			b = append(b, 'S')
		case c >= '0' && c <= '9':
			if len(b) == 0 || b[len(b)-1] != 'N' {
				b = append(b, 'N')
			}
		case c >= 0x80:
		default:
			b = append(b, c)
		}
	}
	return string(b)
}

func trunc(s string, n int) string {
	if len(s) > n {
		return s[:n]
	}
	return s
}

// c02ErrFormat: a syntax error names a template of the set and, after the name and before any other
// digit, a line between 1 and the number of lines of that template.
func c02ErrFormat(msg string, files map[string]string) string {
	if strings.Contains(msg, "could not be found") || strings.Contains(msg, "no base name") {
		return "" // not a syntax error
	}
	best, at := "", len(msg)+1
	for n := range files {
		if i := strings.Index(msg, n); i >= 0 && (i < at || (i == at && len(n) > len(best))) {
			best, at = n, i
		}
	}
	if best == "" {
		return "error names no template of the set: " + msg
	}
	// the innermost template named last carries the line that matters; check every "<name>:<line>" pair
	ok := false
	for n, src := range files {
		idx := 0
		for {
			i := strings.Index(msg[idx:], n+":")
			if i < 0 {
				break
			}
			rest := msg[idx+i+len(n)+1:]
			j := 0
			for j < len(rest) && rest[j] >= '0' && rest[j] <= '9' {
				j++
			}
			if j > 0 {
				line, _ := strconv.Atoi(rest[:j])
				lines := strings.Count(src, "\n") + 1
				if line < 1 || line > lines {
					return fmt.Sprintf("error names line %d of %s which has %d line(s): %s", line, n, lines, msg)
				}
				ok = true
			}
			idx += i + len(n) + 1
		}
	}
	if !ok {
		return "error names a template but no line: " + msg
	}
	return ""
}

// ---------- the structural recogniser for segment sequences ----------

// c02Broken reports whether a segment sequence is structurally ill-formed in a way the statement
// lists: unterminated action or comment, missing or surplus {{end}}, {{else}}/{{catch}}/{{content}}
// outside their construct, extends/import after other content. false = no verdict.
func c02Broken(segs []string) bool {
	type frame struct{ kind string; sawElse, sawCatch, sawContent bool }
	var st []frame
	content := false // something other than whitespace/comments/extends/import has been seen
	header := true
	for i, s := range segs {
		switch s {
		case "{* unterminated", "{{x", "{{":
			// the fragment is only unterminated if nothing later closes it; if something does, the
			// concatenation is a different program and this recogniser has no verdict
			closer := "}}"
			if s == "{* unterminated" {
				closer = "*}"
			}
			for _, later := range segs[i+1:] {
				if strings.Contains(later, closer) {
					return false
				}
			}
			return true
		case "}}":
			// a lone right delimiter is plain text
			content, header = true, false
		case "text":
			content, header = true, false
		case " ", "{* c *}":
		case `{{extends "x"}}`, `{{import "x"}}`:
			if content || !header {
				return true
			}
		case "{{if a}}":
			st = append(st, frame{kind: "if"})
			content, header = true, false
		case "{{range a}}", "{{range i, v := a}}":
			st = append(st, frame{kind: "range"})
			content, header = true, false
		case "{{try}}":
			st = append(st, frame{kind: "try"})
			content, header = true, false
		case "{{block b()}}":
			st = append(st, frame{kind: "block"})
			content, header = true, false
		case "{{yield b() content}}":
			st = append(st, frame{kind: "yieldc"})
			content, header = true, false
		case "{{else}}", "{{else if a}}":
			content, header = true, false
			// a misplaced {{else}} is not among the mistakes the statement lists: no verdict
			if len(st) == 0 {
				return false
			}
			f := &st[len(st)-1]
			if (f.kind != "if" && f.kind != "range") || f.sawElse {
				return false
			}
			if s == "{{else if a}}" {
				if f.kind != "if" {
					return false
				}
			} else {
				f.sawElse = true
			}
		case "{{catch}}", "{{catch e}}", "{{catch 1}}":
			content, header = true, false
			if len(st) == 0 || st[len(st)-1].kind != "try" || st[len(st)-1].sawCatch {
				// a catch outside a try is not among the mistakes the statement lists (the parser reads it
				// as a construct of its own that is closed by an {{end}}): no verdict for this sequence
				return false
			}
			if s == "{{catch 1}}" {
				return false
			}
			st[len(st)-1].sawCatch = true
		case "{{content}}":
			content, header = true, false
			if len(st) == 0 || st[len(st)-1].kind != "block" || st[len(st)-1].sawContent {
				return false // misplaced {{content}}: not a listed mistake, no verdict
			}
			st[len(st)-1].sawContent = true
		case "{{end}}":
			content, header = true, false
			if len(st) == 0 {
				return true
			}
			st = st[:len(st)-1]
		default:
			content, header = true, false
		}
	}
	return len(st) > 0
}

// ---------- spaces ----------

type c02Space struct {
	name  string
	total func(th bool) int64
	gen   func(i int64, th bool) (cfg c02Delims, in c02Input, ok bool)
}

func c02Seq(alpha []string, code int64, n int) []string {
	out := make([]string, n)
	for j := 0; j < n; j++ {
		out[j] = alpha[code%int64(len(alpha))]
		code /= int64(len(alpha))
	}
	return out
}

func c02Count(k int64, maxLen int) int64 {
	n := int64(0)
	for l := 1; l <= maxLen; l++ {
		n += pow(k, int64(l))
	}
	return n
}

func c02Decode(i int64, k int64, maxLen int) (code int64, n int) {
	for n = 1; n <= maxLen; n++ {
		c := pow(k, int64(n))
		if i < c {
			return i, n
		}
		i -= c
	}
	panic("decode")
}

var c02Refs = []map[string]string{
	{"/x.jet": "parent"},
	{},
	{"/x.jet": "{{if}}"},
	{"/x.jet": `{{extends "/y.jet"}}`, "/y.jet": `{{extends "/z.jet"}}`, "/z.jet": "root"},
	{"/x.jet": `{{extends "/t.jet"}}`},
	{"/x.jet": `{{import "/y.jet"}}`, "/y.jet": `{{import "/x.jet"}}`},
	{"/x.jet": `{{extends "/x.jet"}}`},
	{"/x.jet": "{{ block b() }}unterminated"},
}

var (
	c02SpacesOnce sync.Once
	c02SpacesList []*c02Space
)

func c02Spaces() []*c02Space {
	c02SpacesOnce.Do(func() { c02SpacesList = c02BuildSpaces() })
	return c02SpacesList
}

func c02BuildSpaces() []*c02Space {
	nc := int64(len(c02Cfgs))
	tok := &c02Space{name: "tokens",
		total: func(th bool) int64 {
			m := 3
			if th {
				m = 4
			}
			return c02Count(int64(len(c02Tokens)), m) * 2 * nc
		},
		gen: func(i int64, th bool) (c02Delims, c02Input, bool) {
			m := 3
			if th {
				m = 4
			}
			cfg := c02Cfgs[i%nc]
			i /= nc
			join := []string{" ", ""}[i%2]
			i /= 2
			code, n := c02Decode(i, int64(len(c02Tokens)), m)
			src := "a" + cfg.l() + strings.Join(c02Seq(c02Tokens, code, n), join) + cfg.r() + "b"
			return cfg, c02Input{Cfg: cfg.Name, Src: src}, true
		}}
	seg := &c02Space{name: "segments",
		total: func(th bool) int64 {
			m := 4
			if th {
				m = 5
			}
			return c02Count(int64(len(c02Segments)), m) * nc
		},
		gen: func(i int64, th bool) (c02Delims, c02Input, bool) {
			m := 4
			if th {
				m = 5
			}
			cfg := c02Cfgs[i%nc]
			i /= nc
			code, n := c02Decode(i, int64(len(c02Segments)), m)
			segs := c02Seq(c02Segments, code, n)
			src := cfg.respell(strings.Join(segs, ""))
			return cfg, c02Input{Cfg: cfg.Name, Src: src, MustFail: c02Broken(segs), Files: map[string]string{"/x.jet": "parent " + cfg.respell("{{block b()}}pb{{end}}")}}, true
		}}
	byt := &c02Space{name: "bytes",
		total: func(th bool) int64 { return c02Count(int64(len(c02Bytes)), 3) * 2 * nc },
		gen: func(i int64, th bool) (c02Delims, c02Input, bool) {
			cfg := c02Cfgs[i%nc]
			i /= nc
			inAction := i%2 == 1
			i /= 2
			code, n := c02Decode(i, int64(len(c02Bytes)), 3)
			b := make([]byte, n)
			for j := range b {
				b[j] = c02Bytes[code%int64(len(c02Bytes))]
				code /= int64(len(c02Bytes))
			}
			src := "t" + string(b) + "t"
			if inAction {
				src = cfg.l() + string(b) + cfg.r()
			}
			return cfg, c02Input{Cfg: cfg.Name, Src: src}, true
		}}
	// corpus: every byte prefix, and every single-token deletion / duplication / adjacent swap
	type edit struct{ src string }
	var edits []string
	corpus := append([]string{}, c02Corpus...)
	if ents, err := filepath.Glob("/repo/testData/*.jet"); err == nil {
		for _, f := range ents {
			if b, err := os.ReadFile(f); err == nil && len(b) < 4000 {
				corpus = append(corpus, string(b))
			}
		}
	}
	for _, s := range corpus {
		for i := 0; i <= len(s); i++ {
			edits = append(edits, s[:i])
		}
		toks := c02Tokenise(s)
		for i := range toks {
			del := append(append([]string{}, toks[:i]...), toks[i+1:]...)
			edits = append(edits, strings.Join(del, ""))
			dup := append(append(append([]string{}, toks[:i+1]...), toks[i]), toks[i+1:]...)
			edits = append(edits, strings.Join(dup, ""))
			if i+1 < len(toks) {
				sw := append([]string{}, toks...)
				sw[i], sw[i+1] = sw[i+1], sw[i]
				edits = append(edits, strings.Join(sw, ""))
			}
		}
	}
	cor := &c02Space{name: "corpus-edits",
		total: func(th bool) int64 { return int64(len(edits)) * nc },
		gen: func(i int64, th bool) (c02Delims, c02Input, bool) {
			cfg := c02Cfgs[i%nc]
			src := cfg.respell(edits[i/nc])
			return cfg, c02Input{Cfg: cfg.Name, Src: src, Files: map[string]string{"/x.jet": "p", "/base.jet": "b", "/library.jet": "l"}}, true
		}}
	heads := []string{`{{extends "/x.jet"}}`, `{{import "/x.jet"}}`, `{{extends "x.jet"}}{{import "/x.jet"}}`, `{{include "/x.jet"}}`, `{{extends "/t.jet"}}`, `{{import "/t.jet"}}`, `{{extends "/x.jet"}}{{extends "/x.jet"}}`, `{{import "/x.jet"}}{{extends "/x.jet"}}`, `x{{extends "/x.jet"}}`, ` {{import "/x.jet"}} {{block b()}}y{{end}}`}
	refs := &c02Space{name: "references",
		total: func(th bool) int64 { return int64(len(c02Refs)*len(heads)) * nc },
		gen: func(i int64, th bool) (c02Delims, c02Input, bool) {
			cfg := c02Cfgs[i%nc]
			i /= nc
			files := map[string]string{}
			for n, s := range c02Refs[i%int64(len(c02Refs))] {
				files[n] = cfg.respell(s)
			}
			h := heads[i/int64(len(c02Refs))]
			return cfg, c02Input{Cfg: cfg.Name, Src: cfg.respell(h + "body"), Files: files}, true
		}}
	return []*c02Space{refs, byt, cor, tok, seg}
}

// c02Cyclic: does following extends/import clauses from /t.jet come back to a file already on the path?
func c02Cyclic(in c02Input) bool {
	files := map[string]string{"/t.jet": in.Src}
	for n, s := range in.Files {
		files[n] = s
	}
	targets := func(src string) []string {
		var out []string
		for _, kw := range []string{"extends \"", "import \""} {
			rest := src
			for {
				i := strings.Index(rest, kw)
				if i < 0 {
					break
				}
				rest = rest[i+len(kw):]
				j := strings.Index(rest, "\"")
				if j < 0 {
					break
				}
				name := rest[:j]
				if !strings.HasPrefix(name, "/") {
					name = "/" + name
				}
				out = append(out, name)
			}
		}
		return out
	}
	var visit func(n string, path map[string]bool) bool
	visit = func(n string, path map[string]bool) bool {
		if path[n] {
			return true
		}
		src, ok := files[n]
		if !ok {
			return false
		}
		path[n] = true
		defer delete(path, n)
		for _, t := range targets(src) {
			if visit(t, path) {
				return true
			}
		}
		return false
	}
	return visit("/t.jet", map[string]bool{})
}

func c02Tokenise(s string) []string {
	var toks []string
	cur := ""
	class := func(c byte) int {
		switch {
		case c == ' ' || c == '\n' || c == '\t':
			return 0
		case c >= 'a' && c <= 'z' || c >= 'A' && c <= 'Z' || c >= '0' && c <= '9' || c == '_':
			return 1
		}
		return 2
	}
	for i := 0; i < len(s); i++ {
		if cur != "" && (class(s[i]) != class(cur[0]) || class(s[i]) == 2) {
			toks = append(toks, cur)
			cur = ""
		}
		cur += string(s[i])
	}
	if cur != "" {
		toks = append(toks, cur)
	}
	return toks
}

func c02SpaceByName(n string) *c02Space {
	for _, s := range c02Spaces() {
		if s.name == n {
			return s
		}
	}
	return nil
}

// worker: mc worker c02 <space> <lo> <hi>
func c02Worker(args []string) int {
	debug.SetMaxStack(64 << 20)
	if args[0] == "references" {
		debug.SetMaxStack(2 << 20) // cyclic references recurse without bound: fail fast
	}
	sp := c02SpaceByName(args[0])
	lo, _ := strconv.ParseInt(args[1], 10, 64)
	hi, _ := strconv.ParseInt(args[2], 10, 64)
	th := os.Getenv("VERIF_THOROUGH") == "1"
	em := core.NewWorkerEmit()
	em.Watch(20 * time.Second)
	c02BaseGoroutines = runtime.NumGoroutine()
	for i := lo; i < hi; i++ {
		em.Begin(i)
		cfg, in, ok := sp.gen(i, th)
		if !ok {
			continue
		}
		why, class := c02Check(cfg, in)
		em.Eval()
		if why != "" {
			em.Violate(i, core.Violation{Sig: c02Classify(in, class), What: fmt.Sprintf("[%s #%d %s] %q: %s", sp.name, i, cfg.Name, in.Src, why), Case: map[string]interface{}{"space": sp.name, "index": i, "input": in, "why": why}})
			continue
		}
		em.Distinct(class)
		if i%50021 == 0 {
			em.Sample(in)
		}
	}
	em.Finish()
	return 0
}

func c02Classify(in c02Input, class string) string {
	return ""
}

func C02(r *core.Run) map[string]interface{} {
	r.Rule = "in crash-isolated worker processes, under 7 delimiter configurations: every sequence of <=3 (thorough 4) tokens inside one action over a 70-token alphabet (keywords, identifiers incl. _ and non-ASCII, numbers, strings incl. unterminated, every operator and bracket, stray bytes), joined with and without spaces; every sequence of <=4 (thorough 5) whole segments over 28 constructs; every byte string of <=3 over 20 bytes in text and in action position; every byte prefix and single-token deletion/duplication/swap of a corpus (hand-written coverage templates + testData); extends/import/include heads x 8 referenced-template sets (valid, missing, unparsable, chain of 3, self, 2-cycle); oracle: process survives, no hang, template xor error, error names a template and a line inside it, no goroutine left, structurally broken segment sequences rejected"
	if r.Thorough() {
		os.Setenv("VERIF_THOROUGH", "1")
	}
	totals := map[string]int64{}
	for _, sp := range c02Spaces() {
		sp := sp
		ws := &core.WorkerSpace{Kind: "c02", Name: sp.name, Total: sp.total(r.Thorough()), Batch: 20000, Timeout: 150 * time.Second,
			Describe: func(i int64) interface{} { _, in, _ := sp.gen(i, r.Thorough()); return in }}
		if sp.name == "references" {
			ws.Batch, ws.Timeout = 1, 40*time.Second
			ws.CrashSig = func(i int64, stderr string) string {
				_, in, _ := sp.gen(i, r.Thorough())
				if strings.Contains(stderr, "stack exceeds") && c02Cyclic(in) {
					return "cyclic-extends-or-import-overflows-the-stack"
				}
				return ""
			}
		}
		totals[sp.name] = ws.Total
		r.RunWorkers(ws)
	}
	return map[string]interface{}{"spaces": totals, "configs": len(c02Cfgs), "traces_validated_against_impl": r.Evals()}
}

func init() {
	Registry["C02"] = C02
	Workers["c02"] = c02Worker
	Replayers["C02"] = func(raw json.RawMessage) string {
		var c struct {
			Space string   `json:"space"`
			Index int64    `json:"index"`
			Input c02Input `json:"input"`
		}
		if err := json.Unmarshal(raw, &c); err != nil {
			return err.Error()
		}
		var cfg c02Delims
		for _, x := range c02Cfgs {
			if x.Name == c.Input.Cfg {
				cfg = x
			}
		}
		c02BaseGoroutines = runtime.NumGoroutine()
		why, _ := c02Check(cfg, c.Input)
		return why
	}
}
