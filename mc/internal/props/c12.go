package props

import (
	"os"
	"errors"
	"fmt"
	"reflect"
	"strings"

	"github.com/CloudyKit/jet/v6"

	"verif/mc/internal/core"
	rj "verif/mc/internal/refjet"
)

// C12 — evaluation failures are returned as errors naming the failing file and line.

type c12Class struct {
	name string
	src  string // action text between the delimiters (may hold a whole construct)
	// detected: jet detects the failure itself => the message must name file and line.
	// otherwise (a called function reports an error) only "error, not panic" is required.
	detected bool
}

type c12S struct {
	Name string
	priv int
}

func (c12S) Hello() string { return "hello" }

var c12Classes = []c12Class{
	{"unknown-identifier", `undefinedName`, true},
	{"unknown-identifier-in-expression", `a7 + undefinedName`, true},
	{"unknown-field-struct", `s.Nope`, true},
	{"unknown-field-context", `.Nope`, true},
	{"unknown-field-index-syntax", `s["Nope"]`, true},
	{"unexported-field", `s.priv`, true},
	{"unknown-method", `s.NoMethod()`, true},
	{"field-of-nil", `nilv.Name`, true},
	{"field-of-nil-pointer", `nilp.Name`, true},
	{"unknown-block", `yield nosuchblock()`, true},
	{"unknown-template", `include "/nosuch.jet"`, true},
	// failures reported by built-in *functions* (len, isset, map, exec) count as "a called function reports
	// an error": an error is required, a location is not
	{"unknown-template-exec", `exec("/nosuch.jet")`, false},
	{"include-name-wrong-kind", `include a7`, true},
	{"index-wrong-kind", `sl["x"]`, true},
	{"index-nil", `sl[nilv]`, true},
	{"index-negative", `sl[neg]`, true},
	{"index-too-large", `sl[9]`, true},
	{"index-too-large-string", `str[9]`, true},
	{"index-into-int", `a7[0]`, true},
	{"index-map-wrong-key-kind", `m[sl]`, true},
	{"slice-bound-wrong-kind", `sl["a":]`, true},
	{"slice-end-wrong-kind", `sl[:"a"]`, true},
	{"slice-bound-out-of-range", `sl[1:9]`, true},
	{"slice-bound-inverted", `sl[2:1]`, true},
	{"slice-bound-negative", `sl[neg:]`, true},
	{"slice-of-int", `a7[0:1]`, true},
	{"operand-left-wrong-kind-mul", `"a" * 2`, true},
	{"operand-left-wrong-kind-add", `true + 1`, true},
	{"operand-left-wrong-kind-cmp", `"a" < 2`, true},
	{"operand-left-var-wrong-kind", `sl * 2`, true},
	{"operand-right-wrong-kind", `1 + "a"`, true},
	{"operand-right-wrong-kind-var", `a7 * sl`, true},
	{"operand-right-nil", `a7 + nilv`, true},
	{"operand-right-wrong-kind-cmp", `1 < "a"`, true},
	{"operand-right-wrong-kind-cmp-var", `a7 >= sl`, true},
	{"operand-right-wrong-kind-sub", `2.5 - "a"`, true},
	{"operand-right-wrong-kind-mod", `a7 % "a"`, true},
	{"operand-unary-wrong-kind", `-"a"`, true},
	{"operand-unary-wrong-kind-var", `-sl`, true},
	{"minus-on-string", `"a" - "b"`, true},
	{"zero-divisor", `a7 / a0`, true},
	{"zero-modulus", `a7 % a0`, true},
	{"zero-divisor-uint", `u8 / a0`, true},
	{"zero-modulus-uint", `u8 % a0`, true},
	{"zero-modulus-float-left", `f25 % a0`, true},
	{"zero-divisor-uint-both", `u8 / u0`, true},
	{"call-target-not-function", `a7()`, true},
	{"call-target-not-function-prefix", `a7: 1`, true},
	{"pipe-target-not-function", `1 | a7`, true},
	{"too-few-arguments", `f2(1)`, true},
	{"too-many-arguments", `f2(1, 2, 3)`, true},
	{"too-many-arguments-piped", `1 | f2(2, 3)`, true},
	{"unconvertible-argument", `fInt("x")`, true},
	{"unconvertible-argument-piped", `"x" | fInt`, true},
	{"nil-argument", `fInt(nilv)`, true},
	{"variadic-too-few", `fv()`, true},
	{"variadic-unconvertible", `fv("a", "b")`, true},
	{"map-odd-arguments", `map("a")`, false},
	{"map-key-not-string", `map(sl, 1)`, false},
	{"len-of-int", `len(a7)`, false},
	{"isset-no-arguments", `isset()`, false},
	{"range-over-non-rangeable", `range a7}}x{{end`, true},
	{"range-over-nil", `range nilv}}x{{end`, true},
	{"range-two-vars-no-index", `range i, v := ch}}x{{end`, true},
	{"range-assign-undeclared", `range zz = sl}}x{{end`, true},
	{"assign-undeclared", `zz = 1`, true},
	{"yield-arg-without-value", `yield pb(p)`, true},
	{"yield-arg-without-value-beyond-params", `yield pb(p="x", zz)`, true},
	{"slot-without-pipe-reflected", `f2(a7, _)`, true},
	{"slot-without-pipe-jetfunc", `jf(_)`, true},
	{"jetfunc-panicf", `jfPanic()`, false},
	{"gofunc-panics-error", `gErr()`, false},
	{"gofunc-returns-error", `gRet()`, false},
	{"ints-empty-range", `range ints(3, 3)}}x{{end`, false},
	{"block-param-without-default-at-definition", `block needsArg(q)}}x{{end`, true},
	// constructs with a multi-line body: the position is that of the opening action ("\x00" ends it)
	{"unknown-block-with-content", "yield nosuchblock() content\x00}}\nc\n{{end", true},
	{"yield-arg-without-value-with-content", "yield pb(p) content\x00}}\nc\n\n{{end", true},
	{"block-param-without-default-multiline", "block needsArg2(q)\x00}}\nx\n{{end", true},
	{"block-context-unknown-multiline", "block ctxblk() .Nope\x00}}\nx\n{{end", true},
	{"range-over-non-rangeable-multiline", "range a7\x00}}\nx\n{{end", true},
	{"range-header-unknown-multiline", "range i, v := undefinedName\x00}}\nx\n{{else}}\ny\n{{end", true},
	{"if-condition-unknown-multiline", "if undefinedName\x00}}\nx\n{{else}}\ny\n{{end", true},
	{"if-let-unknown-multiline", "if q := undefinedName; q\x00}}\nx\n{{end", true},
	{"include-context-unknown", `include "/parts/ok.jet" undefinedName`, true},
	{"yield-context-unknown", `yield pb() undefinedName`, true},
	{"yield-argument-unknown", `yield pb(p=undefinedName)`, true},
	{"let-unknown", `q := undefinedName`, true},
	{"ternary-branch-unknown", `cT ? undefinedName : 1`, true},
	{"call-argument-unknown", `f2(1, undefinedName)`, true},
	{"index-unknown", `sl[undefinedName]`, true},
	{"piped-unknown-function", `1 | undefinedFn`, true},
	{"method-on-nil-pointer", `nilp.Hello()`, true},
	{"return-unknown", `return undefinedName`, true},
}

func c12Mk(log *[]string) rj.Inputs {
	var np *c12S
	return rj.Inputs{Vars: map[string]interface{}{
		"cT": true, "rS": []string{"e1", "e2"},
		"a7": 7, "a0": 0, "u8": uint8(200), "u0": uint(0), "f25": 2.5, "neg": -1, "nilv": nil, "nilp": np, "str": "abc",
		"s": c12S{Name: "n"}, "sl": []int{1, 2, 3}, "m": map[string]int{"k": 1}, "ch": strChan("x"),
		"f2":      func(a, b int) int { return a + b },
		"fInt":    func(a int) int { return a },
		"fv":      func(a string, rest ...int) string { return a },
		"jf":      jet.Func(func(a jet.Arguments) reflect.Value { return a.Get(0) }),
		"jfPanic": jet.Func(func(a jet.Arguments) reflect.Value { a.Panicf("told to panic"); return reflect.Value{} }),
		"gErr":    func() string { panic(errors.New("go func panicked with an error")) },
		"gRet":    func() (string, error) { return "partial", errors.New("go func returned an error") },
	}, Data: c12S{Name: "ctx"}}
}

// line variants: what precedes the failing action (and whether the action itself spans lines)
const c12NLines = 10

func c12Lead(k int) (pre []rj.Stmt, multi bool) {
	switch k {
	case 0:
		return []rj.Stmt{rj.T("lead ")}, false
	case 1:
		return []rj.Stmt{rj.T("lead\n")}, false
	case 2:
		return []rj.Stmt{rj.T("lead\n\n")}, false
	case 3:
		return []rj.Stmt{rj.T("lead"), &rj.Comment{S: " a\n comment\n"}}, false
	case 4:
		return []rj.Stmt{rj.T("lead"), rj.E(&rj.Raw{Src: "\"a\" +\n \"b\"", V: "ab"}), rj.T("\n")}, false
	case 5:
		return []rj.Stmt{rj.T("lead ")}, true
	case 6:
		return []rj.Stmt{rj.T("lead\n")}, true
	case 7: // newlines eaten by the right trim marker of the preceding action
		return []rj.Stmt{rj.T("lead"), rj.E(&rj.Raw{Src: "\"x\" -", V: "x"}), &rj.TrimmedText{S: "\n\n \n"}}, false
	case 8: // newlines eaten by the failing action's own left trim marker (Src gets the marker in c12Build)
		return []rj.Stmt{rj.T("lead\n\n\n")}, false
	default: // a long multi-line comment and a multi-line raw string before the action
		return []rj.Stmt{rj.T("lead"), &rj.Comment{S: "\n\n\n\n"}, rj.E(&rj.Raw{Src: "`a\nb`", V: "a\nb"}), rj.T("\n")}, false
	}
}

const c12NNest = 7
const c12NFile = 4

func c12Build(cls c12Class, file, line, nest int, nest2 ...int) *rj.Program {
	pre, multi := c12Lead(line)
	src := cls.src
	if multi {
		src = "\n" + src + "\n"
	}
	if line == 8 {
		src = "- " + src // {{- action}}: the whitespace before it, newlines included, is trimmed away
		pre = []rj.Stmt{rj.T("lead"), &rj.TrimmedText{S: "\n\n\n"}}
	}
	core := append(append([]rj.Stmt{}, pre...), &rj.FailStmt{Src: src, Class: cls.name}, rj.T("AFTER"))
	var lib []rj.Stmt
	var extra []*rj.File
	lib = append(lib, &rj.BlockDef{Name: "pb", Params: []rj.Param{{Name: "p", Val: rj.S("P")}}, Body: []rj.Stmt{rj.T("pb")}})
	wrap := func(core []rj.Stmt, nest, id int) []rj.Stmt {
		sfx := ""
		if id > 1 {
			sfx = fmt.Sprint(id)
		}
		switch nest {
		case 1:
			return []rj.Stmt{rj.T("n1\n"), &rj.If{Cond: rj.V("cT"), Then: core}}
		case 2:
			return []rj.Stmt{&rj.Range{K: "ri" + sfx, V: "rv" + sfx, Decl: true, X: rj.V("rS"), Body: []rj.Stmt{rj.T("it\n"), &rj.If{Cond: &rj.Bin{Op: "==", L: rj.V("ri" + sfx), R: rj.N(1)}, Then: core}}}}
		case 3:
			return []rj.Stmt{rj.T("n3"), &rj.BlockDef{Name: "inplace" + sfx, Body: core}}
		case 4:
			lib = append(lib, &rj.BlockDef{Name: "wrapc" + sfx, Body: []rj.Stmt{rj.T("<\n"), &rj.YieldContent{}, rj.T(">")}})
			return []rj.Stmt{&rj.Yield{Name: "wrapc" + sfx, HasContent: true, Content: core}}
		case 5:
			extra = append(extra, &rj.File{Name: "/deep/inner" + sfx + ".jet", Imports: []string{"/lib/blocks.jet"}, Body: core})
			return []rj.Stmt{rj.T("outer-inc\n\n"), &rj.Include{Name: rj.S("/deep/inner" + sfx + ".jet")}}
		case 6:
			return []rj.Stmt{&rj.Try{Body: []rj.Stmt{rj.T("inside-try")}}, &rj.If{Cond: rj.V("cT"), Then: []rj.Stmt{&rj.Range{X: rj.V("rS"), Body: core}}}}
		}
		return core
	}
	for k := len(nest2) - 1; k >= 0; k-- {
		core = wrap(core, nest2[k], k+2)
	}
	core = wrap(core, nest, 1)
	main := &rj.File{Name: "/main.jet", Imports: []string{"/lib/blocks.jet"}}
	files := []*rj.File{main}
	switch file {
	case 0:
		main.Body = append([]rj.Stmt{rj.T("M:")}, core...)
	case 1:
		files = append(files, &rj.File{Name: "/parts/inc.jet", Imports: []string{"/lib/blocks.jet"}, Body: core})
		main.Body = []rj.Stmt{rj.T("M:\n\n\n"), &rj.Include{Name: rj.S("/parts/inc.jet")}, rj.T("M-AFTER")}
	case 2:
		lib = append(lib, &rj.BlockDef{Name: "libblock", Body: core})
		main.Body = []rj.Stmt{rj.T("M:\n\n\n\n"), &rj.Yield{Name: "libblock"}, rj.T("M-AFTER")}
	case 3:
		files = append(files, &rj.File{Name: "/layouts/root.jet", Imports: []string{"/lib/blocks.jet"}, Body: append([]rj.Stmt{rj.T("L:")}, core...)})
		main.Extends = "/layouts/root.jet"
		main.Imports = nil
		main.Body = []rj.Stmt{rj.T("stray\n\n\n\n\n")}
	}
	files = append(files, &rj.File{Name: "/lib/blocks.jet", Body: lib}, &rj.File{Name: "/parts/ok.jet", Body: []rj.Stmt{rj.T("ok")}})
	files = append(files, extra...)
	return &rj.Program{Files: files, Entry: "/main.jet", Mk: c12Mk}
}

// c12Position checks that the message names the right file and a line inside the action.
func c12Position(p *rj.Program, pr *rj.Printer, ref rj.Result, got rj.ImplResult) string {
	if ref.Err == nil {
		return ""
	}
	if got.Panic != nil {
		return fmt.Sprintf("Execute panicked instead of returning an error: %v", got.Panic)
	}
	if got.Err == nil {
		return ""
	}
	fs, ok := ref.Err.At.(*rj.FailStmt)
	if !ok {
		return ""
	}
	detected := false
	for _, c := range c12Classes {
		if c.name == fs.Class {
			detected = c.detected
		}
	}
	if !detected {
		return ""
	}
	pos, ok := pr.PosOf(fs)
	if !ok {
		return "internal: no position for the failing action"
	}
	msg := got.Err.Error()
	// the first template of the set named in the message must be the failing action's file ...
	first, firstAt := "", len(msg)+1
	for _, f := range p.Files {
		if i := strings.Index(msg, f.Name); i >= 0 && i < firstAt {
			first, firstAt = f.Name, i
		}
	}
	if first == "" {
		return fmt.Sprintf("error does not name any template (want %s:%d): %s", pos.File, pos.Line, msg)
	}
	if first != pos.File {
		return fmt.Sprintf("error names %s, the failing action is in %s line %d: %s", first, pos.File, pos.Line, msg)
	}
	// ... followed, before any other digit, by a line number inside the action
	rest := msg[firstAt+len(first):]
	j := 0
	for j < len(rest) && (rest[j] < '0' || rest[j] > '9') {
		j++
	}
	k := j
	n := 0
	for k < len(rest) && rest[k] >= '0' && rest[k] <= '9' {
		n = n*10 + int(rest[k]-'0')
		k++
	}
	if j == k {
		return fmt.Sprintf("error names %s but no line (want %d): %s", first, pos.Line, msg)
	}
	if n < pos.Line || n > pos.End {
		return fmt.Sprintf("error names line %d of %s, the failing action spans lines %d-%d: %s", n, first, pos.Line, pos.End, msg)
	}
	return ""
}

var c12Space = registerSpace(&e1Space{
	Prop: "C12", Name: "failures",
	N: func(th bool) int64 {
		n := int64(len(c12Classes)) * c12NFile * c12NLines * c12NNest
		if th {
			n *= c12NNest * c12NNest // three nestings around the failing action
		}
		return n
	},
	Gen: func(i int64, th bool) *rj.Program {
		ix := core.Radix(i, len(c12Classes), c12NFile, c12NLines, c12NNest, c12NNest, c12NNest)
		if th {
			return c12Build(c12Classes[ix[0]], ix[1], ix[2], ix[3], ix[4], ix[5])
		}
		return c12Build(c12Classes[ix[0]], ix[1], ix[2], ix[3])
	},
	ExtraP: c12Position,
	Classify: func(p *rj.Program, src map[string]string, ref rj.Result, got rj.ImplResult) string {
		if os.Getenv("VERIF_TRIAGE") != "" && ref.Err != nil {
			return "T:" + ref.Err.Class
		}
		// recorded finding: a right operand that can't be converted fails with a bare conversion error
		if ref.Err != nil && strings.HasPrefix(ref.Err.Class, "operand-right-wrong-kind") && got.Err != nil && got.Panic == nil && got.Out == ref.Out {
			for _, f := range p.Files {
				if strings.Contains(got.Err.Error(), f.Name) {
					return ""
				}
			}
			return "right-operand-conversion-error-has-no-location"
		}
		return ""
	},
})

func C12(r *core.Run) map[string]interface{} {
	r.Rule = fmt.Sprintf("%d failure classes x 4 files (executed template, included file, block imported from a library, root layout of an extends chain) x 10 line layouts (newlines in text, multi-line comments and raw strings, multi-line action before, newlines eaten by trim markers on either side, the failing action itself spanning lines) x 7 nestings (top, if, second range iteration, block body, yield content, include within include, range inside if after a try); oracle: error not panic, message names the failing file and a line inside the action, writer holds exactly the reference prefix; distinct = distinct (class, position) outcomes", len(c12Classes))
	runSpace(r, c12Space)
	return map[string]interface{}{"classes": len(c12Classes), "traces_validated_against_impl": r.Evals()}
}

func init() {
	Registry["C12"] = C12
	Replayers["C12"] = replayE1
}
