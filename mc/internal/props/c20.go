package props

import (
	"encoding/json"
	"fmt"
	"os"
	"reflect"
	"runtime/debug"
	"sort"
	"strconv"
	"strings"
	"sync"
	"time"

	"github.com/CloudyKit/jet/v6"
	"github.com/CloudyKit/jet/v6/utils"

	"verif/mc/internal/core"
)

// C20 — utils.Walk visits every statement and expression node once and never panics.

// productions: %S = statement-list slot, %E = expression slot
var c20Stmts = []string{
	"text",
	"{{ %E }}",
	"{{ x := %E }}",
	"{{ x = %E }}",
	"{{ a, b := %E, 1 }}",
	"{{ v, ok := m[%E] }}",
	"{{ x := 1; %E }}",
	"{{ _ := %E }}",
	"{{ .f = %E }}",
	"{{ %E | f | g: %E, 2 }}",
	"{{ 1 | f(_, %E) }}",
	"{{ raw: %E }}",
	"{{ if %E }}%S{{ end }}",
	"{{ if %E }}%S{{ else }}%S{{ end }}",
	"{{ if %E }}a{{ else if %E }}%S{{ else }}c{{ end }}",
	"{{ if y := %E; y }}%S{{ end }}",
	"{{ range %E }}%S{{ end }}",
	"{{ range %E }}%S{{ else }}%S{{ end }}",
	"{{ range i, v := %E }}%S{{ end }}",
	"{{ range i = %E }}%S{{ end }}",
	"{{ range i, v := %E }}%S{{ else }}%S{{ end }}",
	"{{ range v = %E }}%S{{ else }}%S{{ end }}",
	"{{ if y := %E; y }}%S{{ else }}%S{{ end }}",
	"{{ if y := %E; y }}a{{ else if z := %E; z }}%S{{ end }}",
	"{{ block b1() }}%S{{ end }}",
	"{{ block b2(p=%E, q) %E }}%S{{ content }}%S{{ end }}",
	"{{ yield y1() }}",
	"{{ yield y2(p=%E) %E }}",
	"{{ yield y3(p=%E) content }}%S{{ end }}",
	"{{ yield y4() %E content }}%S{{ end }}",
	"{{ yield content }}",
	"{{ yield content %E }}",
	"{{ include %E }}",
	"{{ include %E %E }}",
	"{{ try }}%S{{ end }}",
	"{{ try }}%S{{ catch }}%S{{ end }}",
	"{{ try }}%S{{ catch e }}%S{{ end }}",
	"{{ return %E }}",
	"{* comment *}",
}

var c20Exprs = []string{
	"a", ".f", ".f.g", "a.b", "a.b.c", "f(1).g", `"s"`, "1", "1.5", "true", "nil", "'c'",
	"%E + %E", "%E - 1", "-a", "+a", "-1", "%E * %E", "%E / 2", "%E % 2",
	"%E == %E", "%E != 1", "%E < %E", "%E >= 1", "%E && %E", "%E || %E", "%E and %E", "!%E", "not %E",
	"%E ? %E : %E",
	"f()", "f(%E)", "f(%E, %E)", "a.m(%E)", "f(1)(%E)",
	"a[%E]", "a[%E][%E]", "a.b[%E]", "a[%E:%E]", "a[:%E]", "a[%E:]", "a[:]", "f(1)[%E]",
	"(%E)", "isset(%E)", "len(%E)", "exec(%E)", "m[%E].f",
}

// leaves used at the depth limit
const c20LeafE = "z"
const c20LeafS = "t"

// c20Expand fills the slots of production p with the productions chosen by code.
func c20Expand(p string, depth int, next func(slot byte, n int) int) string {
	var b strings.Builder
	for i := 0; i < len(p); i++ {
		if p[i] == '%' && i+1 < len(p) && (p[i+1] == 'E' || p[i+1] == 'S') {
			slot := p[i+1]
			i++
			if depth == 0 {
				if slot == 'E' {
					b.WriteString(c20LeafE)
				} else {
					b.WriteString(c20LeafS)
				}
				continue
			}
			if slot == 'E' {
				k := next('E', len(c20Exprs))
				sub := c20Expand(c20Exprs[k], depth-1, next)
				if strings.ContainsAny(c20Exprs[k], " ") && !strings.HasPrefix(c20Exprs[k], "(") {
					sub = "(" + sub + ")"
				}
				b.WriteString(sub)
			} else {
				k := next('S', len(c20Stmts))
				b.WriteString(c20Expand(c20Stmts[k], depth-1, next))
			}
			continue
		}
		b.WriteByte(p[i])
	}
	return b.String()
}

type c20Space struct {
	name  string
	total int64
	gen   func(i int64) string
}

func c20Slots(p string) (n int) {
	return strings.Count(p, "%E") + strings.Count(p, "%S")
}

// depth-2 space: every production in every slot of every production, one slot varied at a time
// (the other slots hold the leaf), plus all slots filled with the same production.
func c20Spaces(th bool) []*c20Space {
	all := append(append([]string{}, c20Stmts...), func() []string {
		var o []string
		for _, e := range c20Exprs {
			o = append(o, "{{ "+e+" }}")
		}
		return o
	}()...)
	// enumerate (outer production, slot index, inner production)
	type item struct {
		outer string
		slot  int
		inner int
		inner2 int // depth 3: production put into every slot of the inner one (-1 = leaves)
	}
	var items []item
	for _, o := range all {
		ns := c20Slots(o)
		if ns == 0 {
			items = append(items, item{o, -1, 0, -1})
			continue
		}
		si := 0
		for i := 0; i < len(o)-1; i++ {
			if o[i] == '%' && (o[i+1] == 'E' || o[i+1] == 'S') {
				n := len(c20Exprs)
				if o[i+1] == 'S' {
					n = len(c20Stmts)
				}
				for k := 0; k < n; k++ {
					items = append(items, item{o, si, k, -1})
					if th {
						inner := c20Exprs
						if o[i+1] == 'S' {
							inner = c20Stmts
						}
						if c20Slots(inner[k]) > 0 {
							for k2 := 0; k2 < len(c20Exprs)+len(c20Stmts); k2++ {
								items = append(items, item{o, si, k, k2})
							}
						}
					}
				}
				si++
			}
		}
	}
	gen := func(i int64) string {
		it := items[i]
		if it.slot < 0 {
			return it.outer
		}
		si := -1
		level := 0
		_ = level
		var expandInner func(p string) string
		expandInner = func(p string) string {
			// depth-3: every slot of the inner production gets production inner2 (of the matching sort)
			return c20Expand(p, 1, func(slot byte, n int) int {
				if it.inner2 < 0 {
					return 0
				}
				if slot == 'E' {
					return it.inner2 % len(c20Exprs)
				}
				return it.inner2 % len(c20Stmts)
			})
		}
		var b strings.Builder
		o := it.outer
		for j := 0; j < len(o); j++ {
			if o[j] == '%' && j+1 < len(o) && (o[j+1] == 'E' || o[j+1] == 'S') {
				si++
				slot := o[j+1]
				j++
				if si != it.slot {
					if slot == 'E' {
						b.WriteString(c20LeafE)
					} else {
						b.WriteString(c20LeafS)
					}
					continue
				}
				var p string
				if slot == 'E' {
					p = c20Exprs[it.inner]
				} else {
					p = c20Stmts[it.inner]
				}
				var sub string
				if it.inner2 < 0 {
					sub = c20Expand(p, 0, nil)
				} else {
					sub = expandInner(p)
				}
				if slot == 'E' && strings.ContainsAny(p, " ") && !strings.HasPrefix(p, "(") {
					sub = "(" + sub + ")"
				}
				b.WriteString(sub)
				continue
			}
			b.WriteByte(o[j])
		}
		return b.String()
	}
	// "pairs" (thorough): two slots of one production filled at the same time with every pair of productions
	type pitem struct {
		outer  string
		a, b   int // slot indexes
		ka, kb int
	}
	var pitems []pitem
	slotKinds := func(o string) []byte {
		var ks []byte
		for i := 0; i < len(o)-1; i++ {
			if o[i] == '%' && (o[i+1] == 'E' || o[i+1] == 'S') {
				ks = append(ks, o[i+1])
			}
		}
		return ks
	}
	nOf := func(k byte) int {
		if k == 'S' {
			return len(c20Stmts)
		}
		return len(c20Exprs)
	}
	if th {
		for _, o := range all {
			ks := slotKinds(o)
			for a := 0; a < len(ks); a++ {
				for b := a + 1; b < len(ks); b++ {
					for ka := 0; ka < nOf(ks[a]); ka++ {
						for kb := 0; kb < nOf(ks[b]); kb++ {
							pitems = append(pitems, pitem{o, a, b, ka, kb})
						}
					}
				}
			}
		}
	}
	pgen := func(i int64) string {
		it := pitems[i]
		si := -1
		var b strings.Builder
		o := it.outer
		for j := 0; j < len(o); j++ {
			if o[j] == '%' && j+1 < len(o) && (o[j+1] == 'E' || o[j+1] == 'S') {
				si++
				slot := o[j+1]
				j++
				k := -1
				if si == it.a {
					k = it.ka
				} else if si == it.b {
					k = it.kb
				}
				if k < 0 {
					if slot == 'E' {
						b.WriteString(c20LeafE)
					} else {
						b.WriteString(c20LeafS)
					}
					continue
				}
				p := c20Stmts
				if slot == 'E' {
					p = c20Exprs
				}
				sub := c20Expand(p[k], 0, nil)
				if slot == 'E' && strings.ContainsAny(p[k], " ") && !strings.HasPrefix(p[k], "(") {
					sub = "(" + sub + ")"
				}
				b.WriteString(sub)
				continue
			}
			b.WriteByte(o[j])
		}
		return b.String()
	}
	return []*c20Space{{name: "nestings", total: int64(len(items)), gen: gen}, {name: "pairs", total: int64(len(pitems)), gen: pgen}}
}

var (
	c20Once  sync.Once
	c20Cache map[bool][]*c20Space
)

func c20Get(th bool) []*c20Space {
	c20Once.Do(func() { c20Cache = map[bool][]*c20Space{false: c20Spaces(false), true: c20Spaces(true)} })
	return c20Cache[th]
}

// ---------- the reflective oracle ----------

var c20NodeType = reflect.TypeOf((*jet.Node)(nil)).Elem()

type c20ID struct {
	t reflect.Type
	p uintptr
}

// c20Collect follows every field of type Node / Expression / pointer-to-node / slice of them.
func c20Collect(root jet.Node) map[c20ID]jet.NodeType {
	out := map[c20ID]jet.NodeType{}
	var walk func(v reflect.Value)
	walk = func(v reflect.Value) {
		if !v.IsValid() {
			return
		}
		switch v.Kind() {
		case reflect.Interface:
			if !v.IsNil() {
				walk(v.Elem())
			}
		case reflect.Ptr:
			if v.IsNil() {
				return
			}
			if v.Type().Implements(c20NodeType) {
				id := c20ID{v.Type(), v.Pointer()}
				if _, seen := out[id]; seen {
					return
				}
				nt := jet.NodeType(-1)
				if m := v.MethodByName("Type"); m.IsValid() && v.CanInterface() {
					nt = v.Interface().(jet.Node).Type()
				} else {
					// reached through an unexported field: read the embedded NodeBase.NodeType directly
					if f := v.Elem().FieldByName("NodeType"); f.IsValid() {
						nt = jet.NodeType(f.Int())
					}
				}
				out[id] = nt
			}
			walk(v.Elem())
		case reflect.Struct:
			for i := 0; i < v.NumField(); i++ {
				walk(v.Field(i))
			}
		case reflect.Slice, reflect.Array:
			for i := 0; i < v.Len(); i++ {
				walk(v.Index(i))
			}
		}
	}
	walk(reflect.ValueOf(root))
	return out
}

var c20RequiredTypes = map[string]bool{
	"TextNode": true, "ActionNode": true, "IfNode": true, "RangeNode": true, "BlockNode": true, "YieldNode": true, "IncludeNode": true,
	"TryNode": true, "ReturnNode": true, "IdentifierNode": true, "FieldNode": true, "ChainNode": true, "UnderscoreNode": true,
	"StringNode": true, "NilNode": true, "NumberNode": true, "BoolNode": true, "AdditiveExprNode": true, "MultiplicativeExprNode": true,
	"ComparativeExprNode": true, "NumericComparativeExprNode": true, "LogicalExprNode": true, "CallExprNode": true, "NotExprNode": true,
	"TernaryExprNode": true, "IndexExprNode": true, "SliceExprNode": true,
}

// c20Required: statement and expression nodes must be visited; containers (ListNode, PipeNode,
// CommandNode, SetNode, parameter lists, the catch node) only "at most once".
func c20Required(t reflect.Type) bool {
	return c20RequiredTypes[strings.TrimPrefix(t.String(), "*jet.")]
}

type c20Visitor struct {
	seen  map[c20ID]int
	nils  int
	steps int
}

func (v *c20Visitor) Visit(vc utils.VisitorContext, n jet.Node) {
	v.steps++
	if v.steps > 200000 {
		panic("walk does not terminate (200000 visits)")
	}
	if n == nil || (reflect.ValueOf(n).Kind() == reflect.Ptr && reflect.ValueOf(n).IsNil()) {
		v.nils++
		return
	}
	rv := reflect.ValueOf(n)
	v.seen[c20ID{rv.Type(), rv.Pointer()}]++
	vc.Visit(n)
}

func c20Check(src string) (why string, class string, parsed bool) {
	ld := jet.NewInMemLoader()
	ld.Set("/t.jet", src)
	ld.Set("/x.jet", "x")
	t, err := jet.NewSet(ld).GetTemplate("/t.jet")
	if err != nil {
		return "", "", false
	}
	want := c20Collect(t.Root)
	vis := &c20Visitor{seen: map[c20ID]int{}}
	var pan interface{}
	func() {
		defer func() { pan = recover() }()
		utils.Walk(t, vis)
	}()
	if pan != nil {
		return fmt.Sprintf("Walk panicked: %v", pan), "panic", true
	}
	if vis.nils > 0 {
		return fmt.Sprintf("the visitor was handed a nil node %d time(s)", vis.nils), "nil-node", true
	}
	var missing, twice []string
	for id, nt := range want {
		c := vis.seen[id]
		_ = nt
		if c == 0 && c20Required(id.t) {
			missing = append(missing, strings.TrimPrefix(id.t.String(), "*jet."))
		}
		if c > 1 {
			twice = append(twice, strings.TrimPrefix(id.t.String(), "*jet."))
		}
	}
	for id := range vis.seen {
		if _, ok := want[id]; !ok {
			return fmt.Sprintf("the visitor was handed a %s that is not in the tree", id.t), "foreign-node", true
		}
	}
	sort.Strings(missing)
	sort.Strings(twice)
	if len(missing) > 0 {
		return "not visited: " + strings.Join(missing, ","), "missing:" + strings.Join(uniq(missing), ","), true
	}
	if len(twice) > 0 {
		return "visited more than once: " + strings.Join(twice, ","), "twice:" + strings.Join(uniq(twice), ","), true
	}
	kinds := map[string]bool{}
	for id := range want {
		kinds[strings.TrimPrefix(id.t.String(), "*jet.")] = true
	}
	var ks []string
	for k := range kinds {
		ks = append(ks, k)
	}
	sort.Strings(ks)
	return "", strings.Join(ks, ","), true
}

func uniq(s []string) []string {
	var o []string
	for i, x := range s {
		if i == 0 || x != s[i-1] {
			o = append(o, x)
		}
	}
	return o
}

func c20Worker(args []string) int {
	debug.SetMaxStack(8 << 20)
	th := os.Getenv("VERIF_THOROUGH") == "1"
	sp := c20Get(th)[0]
	for _, x := range c20Get(th) {
		if x.name == args[0] {
			sp = x
		}
	}
	lo, _ := strconv.ParseInt(args[1], 10, 64)
	hi, _ := strconv.ParseInt(args[2], 10, 64)
	em := core.NewWorkerEmit()
	em.Watch(20 * time.Second)
	for i := lo; i < hi; i++ {
		em.Begin(i)
		src := sp.gen(i)
		why, class, parsed := c20Check(src)
		if !parsed {
			em.Skip("the parser rejects this nesting")
			continue
		}
		em.Eval()
		if why != "" {
			em.Violate(i, core.Violation{Sig: c20Classify(src, class), What: fmt.Sprintf("[#%d] %q: %s", i, src, why), Case: map[string]interface{}{"index": i, "source": src, "why": why}})
			continue
		}
		em.Distinct(class)
		if i%4001 == 0 {
			em.Sample(map[string]string{"source": src, "node_kinds": class})
		}
	}
	em.Finish()
	return 0
}

func c20Classify(src, class string) string { return "" }

func C20(r *core.Run) map[string]interface{} {
	r.Rule = fmt.Sprintf("templates generated from a grammar with one production per node kind the parser can build (%d statement productions incl. include, try, try/catch with and without variable, return, yield with parameters/context/content, block with content, assignments; %d expression productions incl. unary minus, '_' slot, slices with each bound omitted, chains on calls, index on chains, ternary, nil): every production in every slot of every production and a third level below (thorough: also every pair of productions in every two slots of a production), parsed by the real parser and walked in a crash-isolated worker; oracle: reflective traversal of Template.Root by pointer identity - every statement/expression node handed to the visitor exactly once, containers at most once, no nil or foreign node, terminates; distinct = distinct sets of node kinds in a conforming tree", len(c20Stmts), len(c20Exprs))
	os.Setenv("VERIF_THOROUGH", "1") // the three-level space is cheap enough for the quick tier too
	sp := c20Get(true)[0]
	ws := &core.WorkerSpace{Kind: "c20", Name: sp.name, Total: sp.total, Batch: 2000, Timeout: 60 * time.Second,
		Describe: func(i int64) interface{} { return sp.gen(i) },
		CrashSig: func(i int64, stderr string) string { return "" }}
	r.RunWorkers(ws)
	total := sp.total
	if r.Thorough() {
		pp := c20Get(true)[1]
		total += pp.total
		r.RunWorkers(&core.WorkerSpace{Kind: "c20", Name: pp.name, Total: pp.total, Batch: 2000, Timeout: 60 * time.Second,
			Describe: func(i int64) interface{} { return pp.gen(i) },
			CrashSig: func(i int64, stderr string) string { return "" }})
	}
	return map[string]interface{}{"templates_generated": total, "statement_productions": len(c20Stmts), "expression_productions": len(c20Exprs), "traces_validated_against_impl": r.Evals()}
}

func init() {
	Registry["C20"] = C20
	Workers["c20"] = c20Worker
	Replayers["C20"] = func(raw json.RawMessage) string {
		var c struct {
			Source string      `json:"source"`
			Input  interface{} `json:"input"`
		}
		if err := json.Unmarshal(raw, &c); err != nil {
			return err.Error()
		}
		src := c.Source
		if s, ok := c.Input.(string); ok && src == "" {
			src = s
		}
		why, _, _ := c20Check(src)
		return why
	}
}
