package props

import (
	"bytes"
	"encoding/json"
	"errors"
	"fmt"
	"hash/fnv"
	"reflect"
	"runtime"
	"runtime/debug"
	"strings"

	"github.com/CloudyKit/jet/v6"

	"verif/mc/internal/core"
)

// C10 — Execute is a pure function of its inputs: no residue from earlier executions.
// Explicit-state search over histories of Execute calls on one goroutine (so the pooled
// Runtime is reused); every call is compared with its own baseline on a fresh pool.

type c10Exec struct {
	Name  string
	Tmpl  string
	Vars  func() jet.VarMap
	Data  interface{}
	Probe bool
}

var c10Files = map[string]string{
	"/plain.jet":        `hello {{ . }} {{ x }}`,
	"/probe-content.jet": `[{{ yield content }}]`,
	"/probe-ctx.jet":    `[{{ . }}]`,
	"/probe-vars.jet":   `{{ isset(x) }}{{ isset(leak) }}{{ isset(t) }}{{ isset(p) }}{{ isset(ri) }}`,
	"/probe-block.jet":  `{{ try }}{{ yield stale() }}{{ catch }}no-block{{ end }}`,
	"/probe-writer.jet": `{{ "to-the-writer" }}{{ raw: "raw" }}`,
	"/fail-top.jet":     `a{{ undefinedName }}b`,
	"/fail-range.jet":   `{{ range rS }}{{ . }}{{ undefinedName }}{{ end }}`,
	"/fail-let.jet":     `{{ leak := "L" }}{{ if t := 1; t }}{{ undefinedName }}{{ end }}`,
	"/lib.jet":          `{{ block stale() }}STALE-BLOCK{{ end }}{{ block b(p="P") }}<{{ yield content }}{{ undefinedName }}>{{ end }}{{ block w() }}<{{ yield content }}>{{ end }}`,
	"/fail-block.jet":   `{{ import "/lib.jet" }}{{ leak := "L" }}{{ yield b() content }}STALE-CONTENT{{ leak }}{{ end }}`,
	"/fail-content.jet": `{{ import "/lib.jet" }}{{ leak := "L" }}{{ range ri, rv := rS }}{{ yield w() "CTX" content }}STALE{{ undefinedName }}{{ end }}{{ end }}`,
	"/broken.jet":       `in{{ undefinedName }}`,
	"/fail-include.jet": `{{ leak := "L" }}{{ include "/broken.jet" "ICTX" }}`,
	"/fail-exec.jet":    `before{{ exec("/broken.jet") }}after`,
	"/swallowed-exec.jet": `before{{ isset(exec("/broken.jet").X) }}after{{ range rS }}{{ isset(exec("/broken.jet").X) }}{{ . }}{{ end }}`,
	"/swallowed-yield.jet": `{{ import "/lib.jet" }}a{{ isset(failS().X) }}b{{ yield w() content }}{{ isset(undefinedName.X) }}c{{ end }}`,
	"/caught.jet":       `{{ try }}{{ range rS }}{{ undefinedName }}{{ end }}{{ catch }}c{{ end }}[{{ . }}]`,
	"/caught-partial.jet": `{{ try }}partial-{{ . }}-output{{ undefinedName }}{{ catch }}c{{ end }}[{{ . }}]`,
	"/try-partial.jet":  `{{ try }}{{ range rS }}abandoned-{{ . }}{{ end }}{{ failS() }}{{ end }}after`,
	"/probe-try.jet":    `{{ try }}T{{ end }}|{{ try }}{{ "U" }}{{ end }}`,
	"/panic-error.jet":  `x{{ failE() }}`,
	"/panic-string.jet": `{{ range rS }}{{ yield w() content }}{{ failS() }}{{ end }}{{ end }}`,
	"/panic-runtime.jet": `{{ leak := "L" }}{{ range rS }}{{ failR() }}{{ end }}`,
	"/ok-rich.jet":      `{{ import "/lib.jet" }}{{ range i, v := rS }}{{ yield w() v content }}{{ i }}={{ . }}{{ end }}{{ end }}{{ try }}t{{ end }}`,
	"/probe-struct.jet": `{{ .X }}/{{ .S }}`,
	"/embptr.jet":       `{{ try }}{{ .Nick }}{{ catch e }}caught{{ end }}|{{ .ID }}`,
	"/embptr-raw.jet":   `{{ .Nick }}|{{ .ID }}`,
	"/range-else.jet":   `{{ range none }}x{{ else }}none;{{ end }}{{ range k, v := mnone }}x{{ else }}mnone;{{ end }}{{ range c := cnone }}x{{ else }}cnone;{{ end }}`,
	"/probe-nested.jet": `{{ range rows }}[{{ range . }}{{ . }}{{ end }}]{{ end }}|{{ range k, m := maps }}({{ range k2, v := m }}{{ k2 }}{{ v }}{{ end }}){{ end }}`,
}

func c10Vars(withX bool) func() jet.VarMap {
	return func() jet.VarMap {
		v := jet.VarMap{}
		v.Set("rS", []string{"e1", "e2"})
		v.Set("none", []string{}).Set("mnone", map[string]int{}).Set("cnone", strChan())
		v.Set("rows", [][]int{{1, 2}, {3, 4}, {5, 6}}).Set("maps", []map[string]int{{"a": 1}, {"b": 2}, {"c": 3}})
		v.Set("failE", func() string { panic(errors.New("boom")) })
		v.Set("failS", func() string { panic("string panic") })
		v.Set("failR", func() string { var m map[string]int; m["x"] = 1; return "" })
		if withX {
			v.Set("x", "X")
		}
		return v
	}
}

var c10Execs = []c10Exec{
	{"plain", "/plain.jet", c10Vars(true), "D", false},
	{"probe-content", "/probe-content.jet", nil, nil, true},
	{"probe-ctx", "/probe-ctx.jet", nil, nil, true},
	{"probe-vars", "/probe-vars.jet", nil, nil, true},
	{"probe-block", "/probe-block.jet", nil, nil, true},
	{"probe-writer", "/probe-writer.jet", nil, nil, true},
	{"probe-struct", "/probe-struct.jet", c10Vars(false), pt{3, "s"}, true},
	// process-global caches (struct fields): the nil variants come first so that their baselines are taken
	// before any execution has seen the non-nil shape
	{"embptr-nil", "/embptr.jet", c10Vars(false), c10Emb{ID: 1}, true},
	{"embptr-nil-raw", "/embptr-raw.jet", c10Vars(false), c10Emb{ID: 2}, true},
	{"embptr-set", "/embptr.jet", c10Vars(false), c10Emb{c10Profile: &c10Profile{Nick: "nick"}, ID: 3}, false},
	{"range-else", "/range-else.jet", c10Vars(false), "D", false},
	{"probe-nested", "/probe-nested.jet", c10Vars(false), "D", true},
	{"fail-top", "/fail-top.jet", c10Vars(false), "D", false},
	{"fail-range", "/fail-range.jet", c10Vars(false), "D", false},
	{"fail-let", "/fail-let.jet", c10Vars(false), "D", false},
	{"fail-block", "/fail-block.jet", c10Vars(false), "D", false},
	{"fail-content", "/fail-content.jet", c10Vars(false), "D", false},
	{"fail-include", "/fail-include.jet", c10Vars(false), "D", false},
	{"fail-exec", "/fail-exec.jet", c10Vars(false), "D", false},
	{"swallowed-exec", "/swallowed-exec.jet", c10Vars(false), "D", false},
	{"swallowed-yield", "/swallowed-yield.jet", c10Vars(false), "D", false},
	{"caught", "/caught.jet", c10Vars(false), "D", false},
	{"caught-partial", "/caught-partial.jet", c10Vars(false), "D", false},
	{"try-partial", "/try-partial.jet", c10Vars(false), "D", false},
	{"probe-try", "/probe-try.jet", nil, nil, true},
	{"panic-error", "/panic-error.jet", c10Vars(false), "D", false},
	{"panic-string", "/panic-string.jet", c10Vars(false), "D", false},
	{"panic-runtime", "/panic-runtime.jet", c10Vars(false), "D", false},
	{"ok-rich", "/ok-rich.jet", c10Vars(true), "D", false},
}

type c10Profile struct{ Nick string }
type c10Emb struct {
	*c10Profile
	ID int
}

type c10World struct {
	set   *jet.Set
	tmpl  map[string]*jet.Template
	hash  map[string]uint64
}

func c10NewWorld() *c10World {
	ld := jet.NewInMemLoader()
	for n, s := range c10Files {
		ld.Set(n, s)
	}
	w := &c10World{set: jet.NewSet(ld), tmpl: map[string]*jet.Template{}, hash: map[string]uint64{}}
	for n := range c10Files {
		t, err := w.set.GetTemplate(n)
		if err != nil {
			panic(fmt.Sprintf("c10: %s does not parse: %v", n, err))
		}
		w.tmpl[n] = t
		w.hash[n] = c10Hash(t)
	}
	return w
}

// c10Hash is a structural hash of the parsed tree (all exported node fields, by value).
func c10Hash(t *jet.Template) uint64 {
	h := fnv.New64a()
	seen := map[uintptr]bool{}
	var walk func(v reflect.Value, depth int)
	walk = func(v reflect.Value, depth int) {
		if depth > 60 || !v.IsValid() {
			return
		}
		switch v.Kind() {
		case reflect.Ptr:
			if v.IsNil() {
				h.Write([]byte{0})
				return
			}
			if seen[v.Pointer()] {
				return
			}
			seen[v.Pointer()] = true
			walk(v.Elem(), depth+1)
		case reflect.Interface:
			if v.IsNil() {
				h.Write([]byte{0})
				return
			}
			fmt.Fprint(h, v.Elem().Type().String())
			walk(v.Elem(), depth+1)
		case reflect.Struct:
			for i := 0; i < v.NumField(); i++ {
				if v.Type().Field(i).PkgPath != "" {
					continue
				}
				fmt.Fprint(h, v.Type().Field(i).Name)
				walk(v.Field(i), depth+1)
			}
		case reflect.Slice, reflect.Array:
			fmt.Fprint(h, v.Len())
			for i := 0; i < v.Len(); i++ {
				walk(v.Index(i), depth+1)
			}
		case reflect.String:
			fmt.Fprintf(h, "%q", v.String())
		case reflect.Bool, reflect.Int, reflect.Int8, reflect.Int16, reflect.Int32, reflect.Int64, reflect.Uint, reflect.Uint8, reflect.Uint16, reflect.Uint32, reflect.Uint64, reflect.Float32, reflect.Float64, reflect.Complex128:
			fmt.Fprint(h, v.Interface())
		}
	}
	walk(reflect.ValueOf(t.Root), 0)
	fmt.Fprint(h, t.Name, t.ParseName)
	return h.Sum64()
}

type c10Obs struct {
	Out   string
	Err   string
	Panic string
}

func (w *c10World) run(e c10Exec) c10Obs {
	var buf bytes.Buffer
	var vars jet.VarMap
	if e.Vars != nil {
		vars = e.Vars()
	}
	var o c10Obs
	func() {
		defer func() {
			if x := recover(); x != nil {
				o.Panic = fmt.Sprint(x)
			}
		}()
		if err := w.tmpl[e.Tmpl].Execute(&buf, vars, e.Data); err != nil {
			o.Err = err.Error()
		}
	}()
	o.Out = buf.String()
	return o
}

func c10FreshPool() {
	// two collections empty sync.Pool (primary and victim cache): the next Execute builds a new Runtime
	runtime.GC()
	runtime.GC()
}

type c10Case struct {
	History []string `json:"history"`
	Step    int      `json:"failing_step"`
	Exec    string   `json:"execution"`
	Want    c10Obs   `json:"baseline_on_fresh_pool"`
	Got     c10Obs   `json:"observed"`
	Why     string   `json:"why"`
}

func (w *c10World) history(hist []int, base []c10Obs) *c10Case {
	c10FreshPool()
	for i, k := range hist {
		e := c10Execs[k]
		got := w.run(e)
		why := ""
		if got != base[k] {
			why = "execution differs from its baseline on a fresh pool"
		} else if h := c10Hash(w.tmpl[e.Tmpl]); h != w.hash[e.Tmpl] {
			why = "Execute modified the parsed template"
		}
		if why != "" {
			var hs []string
			for _, j := range hist[:i+1] {
				hs = append(hs, c10Execs[j].Name)
			}
			return &c10Case{History: hs, Step: i, Exec: e.Name, Want: base[k], Got: got, Why: why}
		}
	}
	return nil
}

func C10(r *core.Run) map[string]interface{} {
	depth := 3
	if r.Thorough() {
		depth = 4
	}
	n := int64(len(c10Execs))
	r.Rule = fmt.Sprintf("every history of <= %d Execute calls over a pool of %d executions (successes, probes that print what a clean runtime must show: pending content, context, variables, blocks, writer; failures at top level, below range, below if-let/let, in a block body while a yield's content is pending, inside the content, inside include, inside exec, inside an exec / a call swallowed by isset, after a caught try, after a try abandoned with partial output (caught and uncaught); error / string / runtime.Error panics), run on one goroutine with GOMAXPROCS=1 and GC off so the pooled Runtime is reused; oracle: every call equals its own baseline taken on an emptied pool, and a structural hash of every parsed template is unchanged; distinct = distinct (execution, observation) pairs; states = distinct observable runtime states (vector of probe results after a history)", depth, n)
	old := runtime.GOMAXPROCS(1)
	gc := debug.SetGCPercent(-1)
	defer func() { runtime.GOMAXPROCS(old); debug.SetGCPercent(gc) }()
	w := c10NewWorld()
	base := make([]c10Obs, n)
	for k, e := range c10Execs {
		c10FreshPool()
		base[k] = w.run(e)
		c10FreshPool()
		if again := w.run(e); again != base[k] {
			r.Violate(core.Violation{Sig: "baseline-unstable", What: "baseline of " + e.Name + " is not reproducible", Case: c10Case{Exec: e.Name, Want: base[k], Got: again}})
		}
		r.Distinct(e.Name + "\x00" + fmt.Sprint(base[k]))
	}
	// non-vacuity: the pooled Runtime really is reused between consecutive executions on this goroutine
	reuse := c10ReuseCount()
	total := int64(0)
	for d := 1; d <= depth; d++ {
		total += pow(n, int64(d))
	}
	states := map[string]bool{}
	var transitions int64
	for i := int64(0); i < total; i++ {
		if i%512 == 0 && r.Expired() {
			break
		}
		j, d := i, 1
		for ; d <= depth; d++ {
			c := pow(n, int64(d))
			if j < c {
				break
			}
			j -= c
		}
		hist := make([]int, d)
		for x := range hist {
			hist[x] = int(j % n)
			j /= n
		}
		bad := w.history(hist, base)
		r.Eval()
		transitions += int64(d)
		if bad != nil {
			r.Violate(core.Violation{Sig: c10Classify(bad), What: fmt.Sprintf("%v: %s: %s; baseline %+v, observed %+v", bad.History, bad.Exec, bad.Why, bad.Want, bad.Got), Case: bad})
			continue
		}
		// observable state after the history: what every probe shows now (without emptying the pool)
		if d <= 2 {
			var vec []string
			for k, e := range c10Execs {
				if e.Probe {
					vec = append(vec, fmt.Sprint(w.run(c10Execs[k])))
				}
			}
			states[strings.Join(vec, "|")] = true
		}
		if i%997 == 0 {
			var hs []string
			for _, k := range hist {
				hs = append(hs, c10Execs[k].Name)
			}
			r.Sample(map[string]interface{}{"history": hs, "last_observation": base[hist[len(hist)-1]]})
		}
	}
	return map[string]interface{}{
		"states": len(states), "transitions": transitions, "traces_validated_against_impl": r.Evals(),
		"executions": n, "history_depth": depth, "runtime_reused_in_consecutive_executions": reuse,
		"fixpoint": len(states) == 1,
	}
}

// c10ReuseCount executes a template whose function records the *Runtime it runs on, 50 times in a row.
func c10ReuseCount() int {
	ld := jet.NewInMemLoader()
	ld.Set("/r.jet", `{{ rec() }}`)
	set := jet.NewSet(ld)
	t, err := set.GetTemplate("/r.jet")
	if err != nil {
		return -1
	}
	var last *jet.Runtime
	same := 0
	vars := jet.VarMap{}
	vars.SetFunc("rec", func(a jet.Arguments) reflect.Value {
		if a.Runtime() == last {
			same++
		}
		last = a.Runtime()
		return reflect.Value{}
	})
	for i := 0; i < 50; i++ {
		_ = t.Execute(&bytes.Buffer{}, vars, nil)
	}
	return same
}

func c10Classify(c *c10Case) string { return "" }

func init() {
	Registry["C10"] = C10
	Replayers["C10"] = func(raw json.RawMessage) string {
		var cs c10Case
		if err := json.Unmarshal(raw, &cs); err != nil {
			return err.Error()
		}
		old := runtime.GOMAXPROCS(1)
		gc := debug.SetGCPercent(-1)
		defer func() { runtime.GOMAXPROCS(old); debug.SetGCPercent(gc) }()
		w := c10NewWorld()
		base := make([]c10Obs, len(c10Execs))
		for k, e := range c10Execs {
			c10FreshPool()
			base[k] = w.run(e)
		}
		var hist []int
		for _, h := range cs.History {
			for k, e := range c10Execs {
				if e.Name == h {
					hist = append(hist, k)
				}
			}
		}
		if bad := w.history(hist, base); bad != nil {
			return fmt.Sprintf("%v: %s: %s; baseline %+v, observed %+v", bad.History, bad.Exec, bad.Why, bad.Want, bad.Got)
		}
		return ""
	}
}
