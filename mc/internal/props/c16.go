package props

import (
	"bytes"
	"encoding/json"
	"errors"
	"fmt"
	"io"
	"sort"
	"strings"
	"sync"

	"github.com/CloudyKit/jet/v6"

	"verif/mc/internal/core"
)

// C16 — cache coherence: identical hits, failures never cached, dev mode reloads,
// Parse caches nothing, extensions tried in order. Explicit-state search over
// histories of Set/loader operations; every transition is replayed on a fresh
// real Set and compared with a reference cache machine.

type c16Cfg struct {
	Name  string
	Dev   bool
	Cache bool // recording custom cache instead of the default one
	Exts  []string
	Alt   bool // alternative start: /a.html.jet exists instead of /a.jet, and the file menu has /a.html.jet instead of /a
}

var c16Cfgs = []c16Cfg{
	{"default", false, false, nil, false},
	{"customcache", false, true, nil, false},
	{"dev", true, false, nil, false},
	{"dev-customcache", true, true, nil, false},
	{"ext-jet-then-bare", false, true, []string{".jet", ""}, false},
	{"ext-bare-only", false, false, []string{""}, false},
	{"ext-jet-only", false, true, []string{".jet"}, false},
	{"ext-html-jet", false, false, []string{".html", ".jet"}, false},
	{"dev-ext-jet-then-bare", true, true, []string{".jet", ""}, false},
	{"ext-bare-only-customcache", false, true, []string{""}, false},
	{"dev-ext-jet-only", true, false, []string{".jet"}, false},
	{"ext-jet-only-defaultcache", false, false, []string{".jet"}, false},
	{"late-extension-start", false, false, nil, true},
	{"late-extension-start-customcache", false, true, nil, true},
}

func (c c16Cfg) exts() []string {
	if c.Exts == nil {
		return []string{"", ".jet", ".html.jet", ".jet.html"}
	}
	return c.Exts
}

type c16Op struct {
	Kind string // get parse exec set del fault
	Path string
	Arg  string
}

func (o c16Op) String() string { return o.Kind + "(" + o.Path + "," + o.Arg + ")" }

var c16Files = []string{"/a", "/a.jet", "/b.jet", "/base.jet"}

func c16Ops(cfg c16Cfg) []c16Op {
	files := c16Files
	if cfg.Alt {
		files = []string{"/a.html.jet", "/a.jet", "/b.jet", "/base.jet"}
	}
	ops := []c16Op{
		{"get", "/a", ""}, {"get", "/a.jet", ""}, {"get", "/b", ""},
		{"parse", "/p.jet", "plain"}, {"parse", "/p.jet", "extends"}, {"parse", "/p.jet", "include"},
		{"exec", "/inc", ""},
	}
	for _, f := range files {
		for _, v := range []string{"v1", "v2", "bad", "ext"} {
			if f == "/base.jet" && v == "ext" {
				continue
			}
			ops = append(ops, c16Op{"set", f, v})
		}
		ops = append(ops, c16Op{"del", f, ""})
	}
	for _, f := range []string{"/a.jet", "/b.jet", "/base.jet"} {
		for _, k := range []string{"none", "open", "read"} {
			ops = append(ops, c16Op{"fault", f, k})
		}
	}
	return ops
}

func c16Content(file, v string) string {
	switch v {
	case "bad":
		return "{{if}}"
	case "ext":
		return `{{extends "/base.jet"}}stray`
	}
	return "[" + file + " " + v + "]"
}

// ---------- the implementation side: a real Set over a faulty recording loader ----------

type c16Loader struct {
	mu    sync.Mutex
	files map[string]string
	fault map[string]string
	trace []string
}

type c16FailReader struct{}

func (c16FailReader) Read([]byte) (int, error) { return 0, errors.New("injected read fault") }
func (c16FailReader) Close() error               { return nil }

func (l *c16Loader) Exists(p string) bool {
	l.mu.Lock()
	defer l.mu.Unlock()
	l.trace = append(l.trace, "E:"+p)
	_, ok := l.files[p]
	return ok
}

func (l *c16Loader) Open(p string) (io.ReadCloser, error) {
	l.mu.Lock()
	defer l.mu.Unlock()
	l.trace = append(l.trace, "O:"+p)
	c, ok := l.files[p]
	if !ok {
		return nil, errors.New("no such file " + p)
	}
	switch l.fault[p] {
	case "open":
		return nil, errors.New("injected open fault")
	case "read":
		return c16FailReader{}, nil
	}
	return io.NopCloser(strings.NewReader(c)), nil
}

type c16Impl struct {
	ld   *c16Loader
	set  *jet.Set
	ptrs map[int]*jet.Template // model identity -> pointer
}

func c16NewImpl(cfg c16Cfg) *c16Impl {
	ld := &c16Loader{files: map[string]string{}, fault: map[string]string{}}
	var opts []jet.Option
	if cfg.Dev {
		opts = append(opts, jet.InDevelopmentMode())
	}
	if cfg.Cache {
		opts = append(opts, jet.WithCache(&recCache{m: map[string]*jet.Template{}, trace: &ld.trace, lmu: &ld.mu}))
	}
	if cfg.Exts != nil {
		opts = append(opts, jet.WithTemplateNameExtensions(cfg.Exts))
	}
	return &c16Impl{ld: ld, set: jet.NewSet(ld, opts...), ptrs: map[int]*jet.Template{}}
}

// ---------- the reference cache machine ----------

type c16T struct {
	id      int
	file    string // canonical file it was loaded from ("" for Parse results)
	text    string // own text at load time
	parent  *c16T
	incB    bool
}

type c16Model struct {
	policy int // under which key(s) a loaded template is remembered: 0 requested name, 1 requested name and file, 2 file only
	exactFirst bool // the requested name itself is looked up before name+extension
	cfg   c16Cfg
	files map[string]string // file -> version tag
	fault map[string]string
	cache map[string]*c16T
	next  int
}

func c16NewModel(cfg c16Cfg) *c16Model {
	m := &c16Model{cfg: cfg, files: map[string]string{}, fault: map[string]string{}, cache: map[string]*c16T{}}
	return m
}

var errC16 = errors.New("model: failure")

func (m *c16Model) text(file string) string {
	if file == "/inc.jet" {
		return `inc:{{include "/b"}}`
	}
	return c16Content(file, m.files[file])
}

func (m *c16Model) exists(file string) bool {
	if file == "/inc.jet" {
		return true
	}
	_, ok := m.files[file]
	return ok
}

// get mirrors the documented lookup: cache for every extension in order, then the loader in order.
func (m *c16Model) get(path string, cacheAfter bool, tr *[]string, depth int) (*c16T, error) {
	if depth > 4 {
		return nil, errC16
	}
	if !m.cfg.Dev {
		if m.exactFirst {
			if t, ok := m.cache[path]; ok {
				return t, nil
			}
		}
		for _, e := range m.cfg.exts() {
			*tr = append(*tr, "G:"+path+e)
			if t, ok := m.cache[path+e]; ok {
				return t, nil
			}
		}
	}
	for _, e := range m.cfg.exts() {
		file := path + e
		*tr = append(*tr, "E:"+file)
		if !m.exists(file) {
			continue
		}
		*tr = append(*tr, "O:"+file)
		if f := m.fault[file]; f == "open" || f == "read" {
			return nil, errC16
		}
		t, err := m.parse(file, m.text(file), cacheAfter, tr, depth)
		if err != nil {
			return nil, err
		}
		if cacheAfter && !m.cfg.Dev {
			// the statement fixes that the template is remembered, not under which key(s): three policies
			if m.policy != 2 || file == path {
				*tr = append(*tr, "P:"+path)
				m.cache[path] = t
			}
			if m.policy != 0 && file != path {
				*tr = append(*tr, "P:"+file)
				m.cache[file] = t
			}
		}
		return t, nil
	}
	return nil, errC16
}

func (m *c16Model) parse(file, text string, cacheAfter bool, tr *[]string, depth int) (*c16T, error) {
	if text == "{{if}}" {
		return nil, errC16
	}
	t := &c16T{file: file, text: text}
	if strings.HasPrefix(text, `{{extends "`) {
		target := text[len(`{{extends "`):strings.Index(text, `"}}`)]
		p, err := m.get(target, cacheAfter, tr, depth+1)
		if err != nil {
			return nil, err
		}
		t.parent = p
	}
	if strings.Contains(text, `{{include "/b"}}`) {
		t.incB = true
	}
	m.next++
	t.id = m.next
	return t, nil
}

// render: what executing t produces now (may load /b through the cache).
func (m *c16Model) render(t *c16T, tr *[]string) (string, error) {
	root := t
	for root.parent != nil {
		root = root.parent
	}
	if root.incB {
		b, err := m.get("/b", true, tr, 0)
		if err != nil {
			return "inc:", err
		}
		s, err := m.render(b, tr)
		return "inc:" + s, err
	}
	if strings.HasPrefix(root.text, `{{extends`) {
		return "", errC16
	}
	return root.text, nil
}

func (m *c16Model) canon() string {
	var parts []string
	fs := make([]string, 0, len(m.files))
	for f, v := range m.files {
		fs = append(fs, f+"="+v+"/"+m.fault[f])
	}
	sort.Strings(fs)
	parts = append(parts, strings.Join(fs, ","))
	for f, k := range m.fault {
		if _, ok := m.files[f]; !ok && k != "" && k != "none" {
			parts = append(parts, "fault:"+f+"="+k)
		}
	}
	sort.Strings(parts[1:])
	// cache: path -> structural description; identities renamed by first occurrence in sorted path order
	paths := make([]string, 0, len(m.cache))
	for p := range m.cache {
		paths = append(paths, p)
	}
	sort.Strings(paths)
	ren := map[int]int{}
	var desc func(t *c16T) string
	desc = func(t *c16T) string {
		if t == nil {
			return "-"
		}
		if _, ok := ren[t.id]; !ok {
			ren[t.id] = len(ren) + 1
		}
		return fmt.Sprintf("#%d<%s|%s>", ren[t.id], t.text, desc(t.parent))
	}
	for _, p := range paths {
		parts = append(parts, p+"->"+desc(m.cache[p]))
	}
	return strings.Join(parts, ";")
}

// ---------- one transition on both sides ----------

type c16Obs struct {
	OK    bool
	Out   string
	Trace []string
	ID    int // model identity of the returned template (0 = none)
	Loaded bool // GetTemplate / Parse itself succeeded (OK also covers the execution that follows)
}

func (o c16Obs) String() string {
	return fmt.Sprintf("ok=%v out=%q trace=%v", o.OK, o.Out, o.Trace)
}

// step applies op to the model and returns the expected observation.
func (m *c16Model) step(op c16Op) (want c16Obs, ret *c16T) {
	var tr []string
	switch op.Kind {
	case "set":
		m.files[op.Path] = op.Arg
		return c16Obs{OK: true}, nil
	case "del":
		delete(m.files, op.Path)
		return c16Obs{OK: true}, nil
	case "fault":
		m.fault[op.Path] = op.Arg
		if op.Arg == "none" {
			delete(m.fault, op.Path)
		}
		return c16Obs{OK: true}, nil
	case "get":
		t, err := m.get(op.Path, true, &tr, 0)
		if err != nil {
			return c16Obs{Trace: tr}, nil
		}
		out, rerr := m.render(t, &tr)
		return c16Obs{OK: rerr == nil, Out: out, Trace: tr, ID: t.id}, t
	case "exec":
		t, err := m.get(op.Path, true, &tr, 0)
		if err != nil {
			return c16Obs{Trace: tr}, nil
		}
		out, rerr := m.render(t, &tr)
		return c16Obs{OK: rerr == nil, Out: out, Trace: tr, ID: t.id}, t
	case "parse":
		text := "[parsed]"
		switch op.Arg {
		case "extends":
			text = `{{extends "/a"}}stray`
		case "include":
			text = `inc:{{include "/b"}}`
		}
		// Parse reads the cache for referenced templates but never writes it
		t, err := m.parse(op.Path, text, false, &tr, 0)
		if err != nil {
			return c16Obs{Trace: tr}, nil
		}
		out, rerr := m.render(t, &tr)
		return c16Obs{OK: rerr == nil, Out: out, Trace: tr, ID: t.id}, t
	}
	panic("op")
}

func (im *c16Impl) step(op c16Op) (got c16Obs, ptr *jet.Template) {
	im.ld.mu.Lock()
	start := len(im.ld.trace)
	im.ld.mu.Unlock()
	finish := func(t *jet.Template, err error) (c16Obs, *jet.Template) {
		var o c16Obs
		o.Loaded = err == nil && t != nil
		if err == nil && t != nil {
			var buf bytes.Buffer
			func() {
				defer func() {
					if x := recover(); x != nil {
						err = fmt.Errorf("panic: %v", x)
					}
				}()
				err = t.Execute(&buf, nil, nil)
			}()
			o.Out = buf.String()
		}
		o.OK = err == nil
		im.ld.mu.Lock()
		o.Trace = append([]string(nil), im.ld.trace[start:]...)
		im.ld.mu.Unlock()
		return o, t
	}
	switch op.Kind {
	case "set":
		im.ld.mu.Lock()
		im.ld.files[op.Path] = c16Content(op.Path, op.Arg)
		im.ld.mu.Unlock()
		return c16Obs{OK: true}, nil
	case "del":
		im.ld.mu.Lock()
		delete(im.ld.files, op.Path)
		im.ld.mu.Unlock()
		return c16Obs{OK: true}, nil
	case "fault":
		im.ld.mu.Lock()
		im.ld.fault[op.Path] = op.Arg
		im.ld.mu.Unlock()
		return c16Obs{OK: true}, nil
	case "get", "exec":
		var t *jet.Template
		var err error
		func() {
			defer func() {
				if x := recover(); x != nil {
					err = fmt.Errorf("panic: %v", x)
				}
			}()
			t, err = im.set.GetTemplate(op.Path)
		}()
		return finish(t, err)
	case "parse":
		text := "[parsed]"
		switch op.Arg {
		case "extends":
			text = `{{extends "/a"}}stray`
		case "include":
			text = `inc:{{include "/b"}}`
		}
		var t *jet.Template
		var err error
		func() {
			defer func() {
				if x := recover(); x != nil {
					err = fmt.Errorf("panic: %v", x)
				}
			}()
			t, err = im.set.Parse(op.Path, text)
		}()
		return finish(t, err)
	}
	panic("op")
}

type c16Case struct {
	Config  string   `json:"config"`
	History []string `json:"history"`
	Step    int      `json:"failing_step"`
	Want    string   `json:"want"`
	Got     string   `json:"got"`
	Why     string   `json:"why"`
}

// c16Replay runs a whole history on a fresh real Set and on the reference machine under each
// caching-key policy; the implementation conforms if one policy explains the whole history and the
// "remembered" invariant holds. It returns the model of the surviving policy and the first disagreement.
func c16Replay(cfg c16Cfg, hist []c16Op) (*c16Model, *c16Case) {
	var ms []*c16Model
	for pol := 0; pol < 6; pol++ {
		m := c16NewModel(cfg)
		m.policy, m.exactFirst = pol%3, pol >= 3
		ms = append(ms, m)
	}
	im := c16NewImpl(cfg)
	im.ld.files["/inc.jet"] = `inc:{{include "/b"}}`
	first := "/a.jet"
	if cfg.Alt {
		first = "/a.html.jet" // GetTemplate("/a") finds its file under a late extension; "/a.jet" may appear afterwards
	}
	for _, op := range []c16Op{{"set", first, "v1"}, {"set", "/b.jet", "v1"}, {"set", "/base.jet", "v1"}} {
		for _, m := range ms {
			m.step(op)
		}
		im.step(op)
	}
	type ident struct {
		ptrOf map[int]*jet.Template
		idOf  map[*jet.Template]int
	}
	ids := make([]ident, len(ms))
	for i := range ids {
		ids[i] = ident{map[int]*jet.Template{}, map[*jet.Template]int{}}
	}
	alive := []bool{true, true, true, true, true, true}
	remembered := map[string]*jet.Template{} // name -> template returned by the first successful GetTemplate
	fail := func(i int, want, got c16Obs, why string) *c16Case {
		var hs []string
		for _, h := range hist[:i+1] {
			hs = append(hs, h.String())
		}
		return &c16Case{Config: cfg.Name, History: hs, Step: i, Want: want.String(), Got: got.String(), Why: why}
	}
	for i, op := range hist {
		got, ptr := im.step(op)
		// the statement's own invariant, independent of any caching policy
		if (op.Kind == "get" || op.Kind == "exec") && !cfg.Dev {
			if first, ok := remembered[op.Path]; ok {
				touched := false
				for _, x := range got.Trace {
					if x[0] == 'E' || x[0] == 'O' {
						touched = true
					}
				}
				if op.Kind == "exec" {
					touched = false // executing may load the included template; only the lookup itself is meant
				}
				if ptr != first || touched {
					return ms[0], fail(i, c16Obs{OK: true}, got, "GetTemplate of a remembered name touched the loader or returned a different *Template")
				}
			} else if got.Loaded && ptr != nil {
				// only a *successful* GetTemplate is remembered (a failed parse hands back a template too)
				remembered[op.Path] = ptr
			}
		}
		var lastWant c16Obs
		lastWhy := ""
		any := false
		for k, m := range ms {
			if !alive[k] {
				continue
			}
			want, _ := m.step(op)
			why := ""
			switch {
			case want.OK != got.OK:
				why = "success/failure differs"
			case want.OK && want.Out != got.Out:
				why = "rendered content differs (stale or wrong template)"
			case !sameTrace(want.Trace, got.Trace, cfg):
				why = "loader/cache request trace differs"
			case want.OK && want.ID != 0 && ptr != nil:
				if p, known := ids[k].ptrOf[want.ID]; known {
					if p != ptr {
						why = "a remembered template was not returned as the identical *Template"
					}
				} else if id, seen := ids[k].idOf[ptr]; seen && id != want.ID {
					why = "a fresh load returned a previously returned *Template"
				} else {
					ids[k].ptrOf[want.ID] = ptr
					ids[k].idOf[ptr] = want.ID
				}
			}
			if why != "" {
				alive[k] = false
				lastWant, lastWhy = want, why
				continue
			}
			any = true
		}
		if !any {
			return ms[0], fail(i, lastWant, got, lastWhy+" (under every caching-key policy)")
		}
	}
	for k, m := range ms {
		if alive[k] {
			return m, nil
		}
	}
	return ms[0], nil
}

// sameTrace compares request traces. Without a recording cache only loader requests are observable.
func sameTrace(want, got []string, cfg c16Cfg) bool {
	// loader requests are compared exactly (order of extensions, Open after Exists, nothing on a hit).
	// Cache reads are not part of the statement; cache writes are compared as "some / none": the statement
	// fixes when nothing may be remembered (failures, Parse, development mode), not under which key.
	loader := func(t []string) string {
		var o []string
		for _, x := range t {
			if x[0] == 'E' || x[0] == 'O' {
				o = append(o, x)
			}
		}
		return strings.Join(o, "|")
	}
	puts := func(t []string) bool {
		for _, x := range t {
			if x[0] == 'P' {
				return true
			}
		}
		return false
	}
	if loader(want) != loader(got) {
		return false
	}
	if cfg.Cache && puts(want) != puts(got) {
		return false
	}
	return true
}

func C16(r *core.Run) map[string]interface{} {
	ops := c16Ops(c16Cfgs[0])
	cfgs := c16Cfgs
	depthAll, depthBFS := 2, 4
	if r.Thorough() {
		depthAll, depthBFS = 3, 6
	} else {
		cfgs = append(append([]c16Cfg{}, c16Cfgs[:8]...), c16Cfgs[12])
	}
	r.Rule = fmt.Sprintf("per configuration (development mode x custom cache x extension list x start: /a.jet present, or only /a.html.jet present so that a file with an earlier extension can appear later): (1) every history of <= %d operations over a %d-operation menu (GetTemplate of 3 names, Parse plain/extends/include, Execute with a run-time include, loader Set of 4 files x 4 contents, Delete, Open/Read fault toggles) with no state merging, (2) breadth-first search to depth %d over canonical model states (file contents, faults, cache entries with template identities renamed by first occurrence); every transition is replayed on a fresh real Set (shortest path + 1 op) and compared with the reference cache machine: success, rendered content, exact Exists/Open/Get/Put trace, pointer identity", depthAll, len(ops), depthBFS)
	var states, transitions int64
	var mu sync.Mutex
	fixpoint := true
	for _, cfg := range cfgs {
		cfg := cfg
		ops := c16Ops(cfg)
		// (1) all histories, no merging
		total := int64(0)
		for d := 1; d <= depthAll; d++ {
			total += pow(int64(len(ops)), int64(d))
		}
		r.ParallelFor(total, func(i int64) {
			d := 1
			for ; d <= depthAll; d++ {
				n := pow(int64(len(ops)), int64(d))
				if i < n {
					break
				}
				i -= n
			}
			hist := make([]c16Op, d)
			for j := 0; j < d; j++ {
				hist[j] = ops[i%int64(len(ops))]
				i /= int64(len(ops))
			}
			_, bad := c16Replay(cfg, hist)
			r.Eval()
			mu.Lock()
			transitions++
			mu.Unlock()
			if bad != nil {
				r.Violate(core.Violation{Sig: c16Classify(bad), What: fmt.Sprintf("[%s] %v: %s; want %s, got %s", cfg.Name, bad.History, bad.Why, bad.Want, bad.Got), Case: bad})
			}
		})
		// (2) BFS over canonical model states
		m0, _ := c16Replay(cfg, nil)
		seen := map[string]bool{m0.canon(): true}
		frontier := [][]c16Op{nil}
		for depth := 0; depth < depthBFS && len(frontier) > 0; depth++ {
			if r.Expired() {
				fixpoint = false
				break
			}
			type succ struct {
				hist []c16Op
				key  string
				bad  *c16Case
			}
			results := make([][]succ, len(frontier))
			r.ParallelFor(int64(len(frontier)), func(fi int64) {
				h := frontier[fi]
				for _, op := range ops {
					nh := append(append([]c16Op{}, h...), op)
					m, bad := c16Replay(cfg, nh)
					r.Eval()
					results[fi] = append(results[fi], succ{nh, m.canon(), bad})
				}
			})
			var next [][]c16Op
			for _, rs := range results {
				for _, s := range rs {
					transitions++
					if s.bad != nil {
						r.Violate(core.Violation{Sig: c16Classify(s.bad), What: fmt.Sprintf("[%s] %v: %s; want %s, got %s", cfg.Name, s.bad.History, s.bad.Why, s.bad.Want, s.bad.Got), Case: s.bad})
						continue
					}
					if !seen[s.key] {
						seen[s.key] = true
						next = append(next, s.hist)
						if len(seen)%977 == 0 {
							var hs []string
							for _, o := range s.hist {
								hs = append(hs, o.String())
							}
							r.Sample(map[string]interface{}{"config": cfg.Name, "history": hs, "state": s.key})
						}
					}
				}
			}
			frontier = next
			if depth == depthBFS-1 && len(frontier) > 0 {
				fixpoint = false
			}
		}
		mu.Lock()
		states += int64(len(seen))
		mu.Unlock()
		for k := range seen {
			r.Distinct(cfg.Name + "\x00" + k)
		}
	}
	return map[string]interface{}{
		"states": states, "transitions": transitions, "traces_validated_against_impl": r.Evals(),
		"configurations": len(cfgs), "operations": len(ops), "all_histories_depth": depthAll, "bfs_depth": depthBFS, "fixpoint": fixpoint,
		"exhaustive": true,
	}
}

func c16Classify(c *c16Case) string { return "" }

func init() {
	Registry["C16"] = C16
	Replayers["C16"] = func(raw json.RawMessage) string {
		var cs c16Case
		if err := json.Unmarshal(raw, &cs); err != nil {
			return err.Error()
		}
		var cfg c16Cfg
		for _, c := range c16Cfgs {
			if c.Name == cs.Config {
				cfg = c
			}
		}
		byName := map[string]c16Op{}
		for _, o := range c16Ops(cfg) {
			byName[o.String()] = o
		}
		var hist []c16Op
		for _, h := range cs.History {
			hist = append(hist, byName[h])
		}
		_, bad := c16Replay(cfg, hist)
		if bad != nil {
			return fmt.Sprintf("%v: %s; want %s, got %s", bad.History, bad.Why, bad.Want, bad.Got)
		}
		return ""
	}
}
