package props

import (
	"errors"
	"fmt"

	"verif/mc/internal/core"
	rj "verif/mc/internal/refjet"
)

// C13 — try is all-or-nothing and leaves no trace of a failed body.

type c13B struct {
	n     int
	lib   []rj.Stmt
	files []*rj.File
}

func c13MkNil(log *[]string) rj.Inputs {
	in := c13Mk(log)
	in.Data = nil // '.' is absent at try entry: restoring it means making it absent again
	return in
}

func c13Mk(log *[]string) rj.Inputs {
	calls := 0
	return rj.Inputs{Vars: map[string]interface{}{
		"failOnce": func() string {
			calls++
			if calls == 1 {
				panic(errors.New("only the first call fails"))
			}
			return "ok"
		},
		"cT": true, "cF": false, "rS": []string{"e1", "e2"}, "rOne": []string{"only"},
		"failE": func() string { panic(errors.New("boom")) },
		"failS": func() string { panic("string panic") },
		"ok":    func() string { return "ok" },
	}, Data: "D"}
}

func c13Fail(kind int) rj.Stmt {
	switch kind {
	case 0:
		return rj.E(rj.V("undefinedName"))
	case 1:
		return rj.E(rj.CallV("failE"))
	default:
		return rj.E(rj.CallV("failS"))
	}
}

const c13NFrames = 10

// frame wraps inner; after (possibly nil) is placed after inner inside the same frame.
func (b *c13B) frame(k int, inner []rj.Stmt) []rj.Stmt {
	b.n++
	id := b.n
	switch k {
	case 0:
		return []rj.Stmt{&rj.Range{X: rj.V("rS"), Body: inner}}
	case 1:
		return []rj.Stmt{&rj.If{Init: rj.Let("t", rj.S("L")), Cond: rj.V("cT"), Then: inner}}
	case 2:
		return append([]rj.Stmt{rj.Let(fmt.Sprintf("loc%d", id), rj.S("L2")), rj.Let("pre", rj.S("shadow"))}, inner...)
	case 3:
		name := fmt.Sprintf("pb%d", id)
		b.lib = append(b.lib, &rj.BlockDef{Name: name, Params: []rj.Param{{Name: "p", Val: rj.S("P")}}, Body: inner})
		return []rj.Stmt{&rj.Yield{Name: name, Ctx: rj.S("YC")}}
	case 4: // yield with content, the failure point is inside the content
		name := fmt.Sprintf("wc%d", id)
		b.lib = append(b.lib, &rj.BlockDef{Name: name, Body: []rj.Stmt{rj.T("<"), &rj.YieldContent{}, rj.T(">")}})
		return []rj.Stmt{&rj.Yield{Name: name, HasContent: true, Content: inner}}
	case 5: // yield with content, the failure point is in the block body after the content was shown
		name := fmt.Sprintf("wb%d", id)
		b.lib = append(b.lib, &rj.BlockDef{Name: name, Body: append([]rj.Stmt{rj.T("<"), &rj.YieldContent{}, rj.T(">")}, inner...)})
		return []rj.Stmt{&rj.Yield{Name: name, HasContent: true, Content: []rj.Stmt{rj.T("inner-content")}}}
	case 6:
		fn := fmt.Sprintf("/inc%d.jet", id)
		b.files = append(b.files, &rj.File{Name: fn, Body: inner})
		return []rj.Stmt{&rj.Include{Name: rj.S(fn), Ctx: rj.S("IC")}}
	case 7:
		fn := fmt.Sprintf("/ex%d.jet", id)
		b.files = append(b.files, &rj.File{Name: fn, Body: inner})
		return []rj.Stmt{rj.Let(fmt.Sprintf("r%d", id), &rj.Exec{Name: rj.S(fn)}), rj.T("x")}
	case 8: // an inner try that catches
		return []rj.Stmt{&rj.Try{Body: inner, HasCatch: true, Catch: []rj.Stmt{rj.T("inner-caught")}}}
	default: // range with two variables (context kept, scope pushed)
		return []rj.Stmt{&rj.Range{K: "ri", V: "rv", Decl: true, X: rj.V("rS"), Body: inner}}
	}
}

func c13Probes() []rj.Stmt {
	unset := func(n string) []rj.Stmt {
		return []rj.Stmt{rj.T("," + n + "="), rj.E(&rj.Tern{C: &rj.IsSet{Args: []rj.Expr{rj.V(n)}}, A: rj.S("LEAK"), B: rj.S("-")})}
	}
	out := []rj.Stmt{rj.T("|.="), rj.E(&rj.Dot{}), rj.T(",pre="), rj.E(rj.V("pre"))}
	out = append(out, unset("t")...)
	out = append(out, unset("p")...)
	out = append(out, unset("e")...)
	out = append(out, unset("ri")...)
	return append(out, rj.T(",content="), &rj.YieldContent{}, rj.T(",end"))
}

// c13Build: placement x catch form x frames x failure
func c13Build(placement, catchForm int, frames []int, failPos, failKind int) *rj.Program {
	b := &c13B{}
	// innermost point
	point := []rj.Stmt{rj.T("o1")}
	if failPos == 1 {
		point = append(point, c13Fail(failKind))
	}
	if placement == 3 {
		// the try body shows the content the enclosing block was yielded with, and that content fails (once)
		point = append(point, rj.T("yc:"), &rj.YieldContent{})
	}
	point = append(point, rj.T("o2"))
	body := point
	for i := len(frames) - 1; i >= 0; i-- {
		body = b.frame(frames[i], body)
		if failPos == 2 && i == len(frames)-1 {
			// failure after the innermost frame, in the enclosing list
			body = append(body, rj.T("o3"), c13Fail(failKind))
		}
	}
	if failPos == 3 {
		body = append(body, rj.T("o4"), c13Fail(failKind)) // failure at the very end of the try body
	}
	try := &rj.Try{Body: append([]rj.Stmt{rj.T("T:")}, body...)}
	switch catchForm {
	case 1:
		try.HasCatch, try.Catch = true, []rj.Stmt{rj.T("C")}
	case 2:
		try.HasCatch, try.CatchVar = true, "e"
		try.Catch = []rj.Stmt{rj.T("C:"), rj.E(&rj.Tern{C: &rj.IsSet{Args: []rj.Expr{rj.V("e")}}, A: rj.S("E"), B: rj.S("noE")}), rj.T(",.="), rj.E(&rj.Dot{}), rj.T(",pre="), rj.E(rj.V("pre"))}
	case 3:
		try.HasCatch, try.CatchVar = true, "e"
		try.Catch = []rj.Stmt{rj.T("C-then-fail"), rj.E(rj.V("alsoUndefined")), rj.T("unreachable")}
	}
	seq := append([]rj.Stmt{rj.T("["), try, rj.T("]")}, c13Probes()...)
	var main []rj.Stmt
	switch placement {
	case 0:
		main = append([]rj.Stmt{rj.Let("pre", rj.S("PRE"))}, seq...)
	case 1:
		main = []rj.Stmt{rj.Let("pre", rj.S("PRE")), &rj.Range{X: rj.V("rOne"), Body: seq}, rj.T("|after-range.="), rj.E(&rj.Dot{})}
	case 3:
		b.lib = append(b.lib, &rj.BlockDef{Name: "outer", Body: seq})
		main = []rj.Stmt{rj.Let("pre", rj.S("PRE")), &rj.Yield{Name: "outer", HasContent: true, Content: []rj.Stmt{rj.T("K1"), rj.E(rj.CallV("failOnce")), rj.T("K2")}}, rj.T("|after-yield.="), rj.E(&rj.Dot{})}
	default: // the try runs inside a block that was yielded with content: {{yield content}} must still show it afterwards
		b.lib = append(b.lib, &rj.BlockDef{Name: "outer", Body: seq})
		main = []rj.Stmt{rj.Let("pre", rj.S("PRE")), &rj.Yield{Name: "outer", HasContent: true, Content: []rj.Stmt{rj.T("OUTER-CONTENT")}}, rj.T("|after-yield.="), rj.E(&rj.Dot{})}
	}
	files := []*rj.File{{Name: "/t.jet", Body: main}}
	if len(b.lib) > 0 {
		files[0].Imports = []string{"/lib.jet"}
		files = append(files, &rj.File{Name: "/lib.jet", Body: b.lib})
	}
	files = append(files, b.files...)
	return &rj.Program{Files: files, Entry: "/t.jet", Mk: c13Mk}
}

var c13Fails = [][2]int{{0, 0}, {1, 0}, {1, 1}, {1, 2}, {2, 0}, {2, 1}, {3, 0}, {3, 2}}

var c13Space = registerSpace(&e1Space{
	Prop: "C13", Name: "try",
	N: func(th bool) int64 {
		f := int64(c13NFrames)
		n := 1 + f + f*f + f*f*f
		if th {
			n += f * f * f * f
		}
		return n * 4 * 4 * int64(len(c13Fails)) * 2
	},
	Gen: func(i int64, th bool) *rj.Program {
		nilData := i%2 == 1
		i /= 2
		fl := c13Fails[i%int64(len(c13Fails))]
		i /= int64(len(c13Fails))
		catchForm := int(i % 4)
		i /= 4
		placement := int(i % 4)
		i /= 4
		f := int64(c13NFrames)
		var frames []int
		switch {
		case i == 0:
		case i < 1+f:
			frames = []int{int(i - 1)}
		case i < 1+f+f*f:
			i -= 1 + f
			frames = []int{int(i / f), int(i % f)}
		case i < 1+f+f*f+f*f*f:
			i -= 1 + f + f*f
			frames = []int{int(i / (f * f)), int((i / f) % f), int(i % f)}
		default:
			i -= 1 + f + f*f + f*f*f
			frames = []int{int(i / (f * f * f)), int((i / (f * f)) % f), int((i / f) % f), int(i % f)}
		}
		if len(frames) == 0 && fl[0] == 2 {
			return nil
		}
		if nilData && len(frames) > 2 {
			return nil // nil data: frames <= 2
		}
		p := c13Build(placement, catchForm, frames, fl[0], fl[1])
		if nilData {
			p.Mk = c13MkNil
		}
		return p
	},
})

func C13(r *core.Run) map[string]interface{} {
	r.Rule = "try bodies built from every sequence of <=3 (thorough 4) nested frames over 10 frame kinds (range, range with variables, if-let, let, yield with parameters and context, yield with content - failure in content / in block body, include with context, exec, inner try that catches) x failure (none, at the innermost point, after the innermost frame, at the end; undefined identifier / error panic / string panic) x 4 catch forms x 4 placements (top, inside range, inside a block yielded with content, inside such a block with the try body showing a content that fails once) x data present / nil; after the try the program probes context, variables, catch variable and {{yield content}}; distinct = distinct reference outcomes"
	runSpace(r, c13Space)
	return map[string]interface{}{"frames": c13NFrames, "traces_validated_against_impl": r.Evals()}
}

func init() {
	Registry["C13"] = C13
	Replayers["C13"] = replayE1
}
