// Package c11scen holds the concurrency scenarios of C11. The same bodies run under the
// controlled scheduler (cmd/c11, sync shim injected by -overlay) and free-running under the
// race detector (cmd/c11race, real sync).
package c11scen

import (
	"bytes"
	"fmt"
	"io"
	"reflect"
	"sort"
	"strings"
	"sync/atomic"

	"github.com/CloudyKit/jet/v6"
)

// Yield is a scheduling point of the harness (set by the driver; a no-op by default).
var Yield = func(note string) {}

// Clock is the driver's logical time (scheduler steps, or a global counter in the race pass).
var Clock = func() int { return 0 }

// Event is one completed API call, with logical call/return times (for the linearizability oracle).
type Event struct {
	Thread       int
	Kind         string // "write" | "read"
	Key, Value   string
	Call, Return int
}

type Scenario struct {
	Name string
	// New builds fresh state; it returns the thread bodies and a checker to run after they all finished.
	// The checker returns a canonical description of the observed outcome and "" or what is wrong with it.
	New func(iter int) (bodies []func(), check func() (outcome string, bad string, events []Event))
	// MinOutcomes is the number of distinct outcomes the exploration is expected to produce (non-vacuity).
	MinOutcomes int
}

type yWriter struct{ buf bytes.Buffer }

func (w *yWriter) Write(b []byte) (int, error) {
	Yield("write")
	return w.buf.Write(b)
}

type yLoader struct{ in *jet.InMemLoader }

func (l yLoader) Exists(p string) bool {
	Yield("exists " + p)
	return l.in.Exists(p)
}
func (l yLoader) Open(p string) (io.ReadCloser, error) {
	Yield("open " + p)
	return l.in.Open(p)
}

func exec(t *jet.Template, vars jet.VarMap, data interface{}) (out string, err error) {
	w := &yWriter{}
	defer func() {
		if x := recover(); x != nil {
			err = fmt.Errorf("PANIC: %v", x)
		}
	}()
	err = t.Execute(w, vars, data)
	return w.buf.String(), err
}

func errStr(err error) string {
	if err == nil {
		return ""
	}
	s := err.Error()
	if len(s) > 80 {
		s = s[:80]
	}
	return "ERR(" + s + ")"
}

var typeSeq int64

// freshStruct builds a struct type jet's field cache has never seen (unique tag per call).
func freshStruct() reflect.Type {
	n := atomic.AddInt64(&typeSeq, 1)
	return reflect.StructOf([]reflect.StructField{
		{Name: "A", Type: reflect.TypeOf(""), Tag: reflect.StructTag(fmt.Sprintf(`u:"%d"`, n))},
		{Name: "B", Type: reflect.TypeOf(0)},
	})
}

type cached struct {
	A string
	B int
}

// Scenarios is the list explored by C11.
var Scenarios = []Scenario{
	{Name: "S1-first-load-of-the-same-template", MinOutcomes: 1, New: func(iter int) ([]func(), func() (string, string, []Event)) {
		in := jet.NewInMemLoader()
		in.Set("/base.jet", `B[{{yield c()}}]`)
		in.Set("/a.jet", `{{extends "/base.jet"}}{{block c()}}A{{.}}{{end}}`)
		set := jet.NewSet(yLoader{in})
		res := make([]string, 2)
		ptr := make([]*jet.Template, 2)
		body := func(i int, data string) func() {
			return func() {
				t, err := set.GetTemplate("/a.jet")
				if err != nil {
					res[i] = errStr(err)
					return
				}
				ptr[i] = t
				out, err := exec(t, nil, data)
				res[i] = out + errStr(err)
			}
		}
		return []func(){body(0, "x"), body(1, "y")}, func() (string, string, []Event) {
			bad := ""
			if res[0] != "B[Ax]" || res[1] != "B[Ay]" {
				bad = fmt.Sprintf("outputs %q, serial outputs are [B[Ax] B[Ay]]", res)
			}
			// afterwards the cache must hold one template that renders the same
			t, err := set.GetTemplate("/a.jet")
			if err != nil {
				bad = "after the race GetTemplate fails: " + err.Error()
			} else if out, _ := exec(t, nil, "z"); out != "B[Az]" {
				bad = fmt.Sprintf("after the race the cached template renders %q", out)
			}
			return fmt.Sprint(res, ptr[0] == ptr[1]), bad, nil
		}
	}},
	{Name: "S2-globals-register", MinOutcomes: 3, New: func(iter int) ([]func(), func() (string, string, []Event)) {
		in := jet.NewInMemLoader()
		in.Set("/g.jet", `{{g}}{{mark()}}{{g}}`)
		set := jet.NewSet(in)
		set.AddGlobal("g", "v1")
		t, err := set.GetTemplate("/g.jet")
		if err != nil {
			panic(err)
		}
		var ev [3][]Event
		var out string
		var eerr error
		bodies := []func(){
			func() {
				call, mid := Clock(), 0
				vars := jet.VarMap{}
				vars.SetFunc("mark", func(a jet.Arguments) reflect.Value { Yield("mark"); mid = Clock(); return reflect.Value{} })
				out, eerr = exec(t, vars, nil)
				ret := Clock()
				if eerr == nil && len(out) == 4 {
					ev[0] = append(ev[0], Event{0, "read", "g", out[:2], call, mid}, Event{0, "read", "g", out[2:], mid, ret})
				}
			},
			func() {
				call := Clock()
				set.AddGlobal("g", "v2")
				ev[1] = append(ev[1], Event{1, "write", "g", "v2", call, Clock()})
				call = Clock()
				set.AddGlobal("g", "v3")
				ev[1] = append(ev[1], Event{1, "write", "g", "v3", call, Clock()})
			},
			func() {
				call := Clock()
				v, ok := set.LookupGlobal("g")
				s := "<none>"
				if ok {
					if rv, isRV := v.(reflect.Value); isRV {
						s = fmt.Sprint(rv.Interface())
					} else {
						s = fmt.Sprint(v)
					}
				}
				ev[2] = append(ev[2], Event{2, "read", "g", s, call, Clock()})
			},
		}
		return bodies, func() (string, string, []Event) {
			bad := ""
			if eerr != nil {
				bad = "Execute failed: " + eerr.Error()
			}
			var all []Event
			for _, e := range ev {
				all = append(all, e...)
			}
			look := ""
			if len(ev[2]) > 0 {
				look = ev[2][0].Value
			}
			return out + "/" + look, bad, all
		}
	}},
	{Name: "S3-struct-field-cache-population", MinOutcomes: 1, New: func(iter int) ([]func(), func() (string, string, []Event)) {
		in := jet.NewInMemLoader()
		in.Set("/s.jet", `{{.A}}-{{.B}}|{{range i := .L}}{{i}}{{end}}`)
		set := jet.NewSet(in)
		t, err := set.GetTemplate("/s.jet")
		if err != nil {
			panic(err)
		}
		typ := reflect.StructOf([]reflect.StructField{
			{Name: "A", Type: reflect.TypeOf(""), Tag: reflect.StructTag(fmt.Sprintf(`u:"%d"`, atomic.AddInt64(&typeSeq, 1)))},
			{Name: "B", Type: reflect.TypeOf(0)},
			{Name: "L", Type: reflect.TypeOf([]int{})},
		})
		mk := func(a string, b int) interface{} {
			v := reflect.New(typ).Elem()
			v.Field(0).SetString(a)
			v.Field(1).SetInt(int64(b))
			v.Field(2).Set(reflect.ValueOf([]int{7, 8}))
			return v.Interface()
		}
		type cachedL struct {
			A string
			B int
			L []int
		}
		exec(t, nil, cachedL{"warm", 0, nil}) // cachedL is in the field cache before the race
		res := make([]string, 3)
		return []func(){
				func() { o, e := exec(t, nil, mk("one", 1)); res[0] = o + errStr(e) },
				func() { o, e := exec(t, nil, mk("two", 2)); res[1] = o + errStr(e) },
				func() { o, e := exec(t, nil, cachedL{"three", 3, []int{5}}); res[2] = o + errStr(e) },
			}, func() (string, string, []Event) {
				want := []string{"one-1|01", "two-2|01", "three-3|0"}
				bad := ""
				if fmt.Sprint(res) != fmt.Sprint(want) {
					bad = fmt.Sprintf("outputs %q, serial outputs are %q", res, want)
				}
				return fmt.Sprint(res), bad, nil
			}
	}},
	{Name: "S4-development-mode-vs-loader-edits", MinOutcomes: 2, New: func(iter int) ([]func(), func() (string, string, []Event)) {
		in := jet.NewInMemLoader()
		in.Set("/f.jet", `v1{{.}}`)
		set := jet.NewSet(yLoader{in}, jet.InDevelopmentMode())
		res := make([]string, 2)
		return []func(){
				func() {
					for k := 0; k < 2; k++ {
						t, err := set.GetTemplate("/f.jet")
						if err != nil {
							res[k] = "notfound"
							continue
						}
						o, e := exec(t, nil, "!")
						res[k] = o + errStr(e)
					}
				},
				func() {
					in.Set("/f.jet", `v2{{.}}`)
					Yield("between edits")
					in.Delete("/f.jet")
				},
			}, func() (string, string, []Event) {
				bad := ""
				rank := map[string]int{"v1!": 1, "v2!": 2, "notfound": 3}
				for _, r := range res {
					if rank[r] == 0 {
						bad = fmt.Sprintf("a lookup during loader edits gave %q (legal: v1!, v2!, notfound)", r)
					}
				}
				if bad == "" && rank[res[0]] > rank[res[1]] {
					bad = fmt.Sprintf("development mode went back in time: %q then %q", res[0], res[1])
				}
				return fmt.Sprint(res), bad, nil
			}
	}},
	{Name: "S5-parse-extending-a-template-loaded-concurrently", MinOutcomes: 1, New: func(iter int) ([]func(), func() (string, string, []Event)) {
		in := jet.NewInMemLoader()
		in.Set("/x.jet", `X[{{yield c()}}]{{block c()}}dx{{end}}`)
		set := jet.NewSet(yLoader{in})
		res := make([]string, 2)
		return []func(){
				func() {
					t, err := set.Parse("/p.jet", `{{extends "/x.jet"}}{{block c()}}P{{.}}{{end}}`)
					if err != nil {
						res[0] = errStr(err)
						return
					}
					o, e := exec(t, nil, "1")
					res[0] = o + errStr(e)
				},
				func() {
					t, err := set.GetTemplate("/x.jet")
					if err != nil {
						res[1] = errStr(err)
						return
					}
					o, e := exec(t, nil, "2")
					res[1] = o + errStr(e)
				},
			}, func() (string, string, []Event) {
				bad := ""
				if res[0] != "X[P1]P1" || res[1] != "X[dx]dx" {
					bad = fmt.Sprintf("outputs %q, serial outputs are [X[P1]P1 X[dx]dx]", res)
				}
				return fmt.Sprint(res), bad, nil
			}
	}},
	{Name: "S6-two-executes-of-one-rich-template", MinOutcomes: 1, New: func(iter int) ([]func(), func() (string, string, []Event)) {
		in := jet.NewInMemLoader()
		in.Set("/lib.jet", `{{block w()}}<{{yield content}}>{{end}}`)
		in.Set("/inc.jet", `inc({{.}})`)
		in.Set("/r.jet", `{{import "/lib.jet"}}{{range i, v := .S}}{{i}}{{v}}{{end}}|{{range k, v := .M}}{{k}}={{v}}{{end}}|{{try}}{{.Nope}}{{catch}}c{{end}}|{{include "/inc.jet" .N}}|{{yield w() content}}{{.N}}{{end}}|{{x := .N}}{{x}}`)
		set := jet.NewSet(yLoader{in})
		t, err := set.GetTemplate("/r.jet")
		if err != nil {
			panic(err)
		}
		type D struct {
			S []string
			M map[string]int
			N string
		}
		res := make([]string, 2)
		return []func(){
				func() { o, e := exec(t, nil, D{[]string{"a", "b"}, map[string]int{"k": 1}, "n1"}); res[0] = o + errStr(e) },
				func() { o, e := exec(t, nil, D{[]string{"c"}, map[string]int{"q": 2}, "n2"}); res[1] = o + errStr(e) },
			}, func() (string, string, []Event) {
				want := []string{"0a1b|k=1|c|inc(n1)|<n1>|n1", "0c|q=2|c|inc(n2)|<n2>|n2"}
				bad := ""
				if fmt.Sprint(res) != fmt.Sprint(want) {
					bad = fmt.Sprintf("outputs %q, serial outputs are %q", res, want)
				}
				return fmt.Sprint(res), bad, nil
			}
	}},
	{Name: "S8-two-writers-of-different-globals", MinOutcomes: 1, New: func(iter int) ([]func(), func() (string, string, []Event)) {
		in := jet.NewInMemLoader()
		in.Set("/k.jet", `{{k1}}{{k2}}`)
		set := jet.NewSet(in)
		set.AddGlobal("k0", "zero")
		return []func(){
				func() { set.AddGlobal("k1", "one") },
				func() { set.AddGlobal("k2", "two") },
				func() { set.LookupGlobal("k0") },
			}, func() (string, string, []Event) {
				_, ok1 := set.LookupGlobal("k1")
				_, ok2 := set.LookupGlobal("k2")
				_, ok0 := set.LookupGlobal("k0")
				bad := ""
				if !ok1 || !ok2 || !ok0 {
					bad = fmt.Sprintf("a global was lost: k0=%v k1=%v k2=%v after both AddGlobal calls returned", ok0, ok1, ok2)
				} else if t, err := set.GetTemplate("/k.jet"); err != nil {
					bad = err.Error()
				} else if out, err := exec(t, nil, nil); err != nil || out != "onetwo" {
					bad = fmt.Sprintf("rendering both globals gives %q %v", out, err)
				}
				return fmt.Sprint(ok0, ok1, ok2), bad, nil
			}
	}},
	{Name: "S7-first-include-of-a-template-from-two-executions", MinOutcomes: 1, New: func(iter int) ([]func(), func() (string, string, []Event)) {
		in := jet.NewInMemLoader()
		in.Set("/part.jet", `part({{.}})`)
		in.Set("/m.jet", `m:{{include "/part.jet" .}}`)
		set := jet.NewSet(yLoader{in})
		t, err := set.GetTemplate("/m.jet")
		if err != nil {
			panic(err)
		}
		res := make([]string, 3)
		return []func(){
				func() { o, e := exec(t, nil, "a"); res[0] = o + errStr(e) },
				func() { o, e := exec(t, nil, "b"); res[1] = o + errStr(e) },
				func() { set.AddGlobal("unrelated", 1); _, ok := set.LookupGlobal("unrelated"); res[2] = fmt.Sprint(ok) },
			}, func() (string, string, []Event) {
				want := []string{"m:part(a)", "m:part(b)", "true"}
				bad := ""
				if fmt.Sprint(res) != fmt.Sprint(want) {
					bad = fmt.Sprintf("results %q, serial results are %q", res, want)
				}
				return fmt.Sprint(res), bad, nil
			}
	}},
	{Name: "S9-first-load-of-a-page-sharing-its-libraries-with-another", MinOutcomes: 1, New: func(iter int) ([]func(), func() (string, string, []Event)) {
		// a page without blocks of its own and two block sources; another page uses the first source alone:
		// loading the one must not change what the other renders, in either order and at any moment
		in := jet.NewInMemLoader()
		in.Set("/lib1.jet", `{{block x()}}L1.x{{end}}{{block y()}}L1.y{{end}}`)
		in.Set("/lib2.jet", `{{block x()}}L2.x{{end}}`)
		in.Set("/page.jet", `{{import "/lib1.jet"}}{{import "/lib2.jet"}}[{{yield x()}}|{{yield y()}}]`)
		in.Set("/other.jet", `{{import "/lib1.jet"}}({{yield x()}}|{{yield y()}}{{.}})`)
		set := jet.NewSet(yLoader{in})
		res := make([]string, 2)
		body := func(i int, name, data string) func() {
			return func() {
				t, err := set.GetTemplate(name)
				if err != nil {
					res[i] = errStr(err)
					return
				}
				o, e := exec(t, nil, data)
				res[i] = o + errStr(e)
			}
		}
		return []func(){body(0, "/page.jet", "p"), body(1, "/other.jet", "o")}, func() (string, string, []Event) {
			bad := ""
			if res[0] != "[L2.x|L1.y]" || res[1] != "(L1.x|L1.yo)" {
				bad = fmt.Sprintf("outputs %q, serial outputs are [[L2.x|L1.y] (L1.x|L1.yo)]", res)
			}
			for _, again := range [][2]string{{"/other.jet", "(L1.x|L1.yz)"}, {"/page.jet", "[L2.x|L1.y]"}, {"/lib1.jet", "L1.xL1.y"}} {
				t, err := set.GetTemplate(again[0])
				if err != nil {
					bad = "afterwards GetTemplate fails: " + err.Error()
				} else if out, _ := exec(t, nil, "z"); out != again[1] {
					bad = fmt.Sprintf("afterwards %s renders %q, want %q", again[0], out, again[1])
				}
			}
			return fmt.Sprint(res), bad, nil
		}
	}},
}

// Linearizable checks a history of register operations by brute force over all orders that respect
// real-time precedence (the histories here have at most 6 operations). Initial value of every key: init.
func Linearizable(ev []Event, init string) bool {
	n := len(ev)
	idx := make([]int, n)
	for i := range idx {
		idx[i] = i
	}
	used := make([]bool, n)
	var rec func(done int, val string) bool
	rec = func(done int, val string) bool {
		if done == n {
			return true
		}
		for i := 0; i < n; i++ {
			if used[i] {
				continue
			}
			// i may come next only if no unused operation returned before i was called
			ok := true
			for j := 0; j < n; j++ {
				if !used[j] && j != i && ev[j].Return < ev[i].Call {
					ok = false
					break
				}
			}
			if !ok {
				continue
			}
			nv := val
			if ev[i].Kind == "write" {
				nv = ev[i].Value
			} else if ev[i].Value != val {
				continue
			}
			used[i] = true
			if rec(done+1, nv) {
				used[i] = false
				return true
			}
			used[i] = false
		}
		return false
	}
	return rec(0, init)
}

func SortedKeys(m map[string]int) []string {
	var ks []string
	for k := range m {
		ks = append(ks, k)
	}
	sort.Strings(ks)
	return ks
}

var _ = strings.Join
