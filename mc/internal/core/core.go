// Package core holds what every check shares: the run record (counters, distinct
// outcomes, samples, violations), known-findings matching, evidence and replay
// files, and a deterministic parallel index enumerator.
package core

import (
	"crypto/sha1"
	"encoding/hex"
	"encoding/json"
	"fmt"
	"os"
	"path/filepath"
	"runtime"
	"sort"
	"strconv"
	"sync"
	"sync/atomic"
	"time"
)

// VerifDir is the root of the verification tree (evidence/, replays/, known_findings.json).
var VerifDir = func() string {
	if d := os.Getenv("VERIF_DIR"); d != "" {
		return d
	}
	return "/verif"
}()

var triage = os.Getenv("VERIF_TRIAGE") != ""

// Violation is one disagreement between implementation and oracle.
type Violation struct {
	// Sig is the narrow signature used to match known findings. Checks set it to a
	// class name only when the observation equals the specific wrong behaviour of
	// that class; otherwise it is left empty and derived from the case itself.
	Sig  string
	What string      // one line, human readable
	Case interface{} // JSON-serialisable replay description
}

// Finding is one open entry of known_findings.json.
type Finding struct {
	Property string `json:"property"`
	Sig      string `json:"sig"`
	What     string `json:"what"`
}

type findingsFile struct {
	Open  []Finding `json:"open"`
	Fixed []string  `json:"fixed"`
}

// Run accumulates the result of one check invocation.
type Run struct {
	Prop  string
	Tier  string
	Seed  int64
	Start time.Time

	Deadline  time.Time // soft budget; enumeration stops between cases after it
	truncated atomic.Bool

	evals    atomic.Int64
	skipped  atomic.Int64
	mu       sync.Mutex
	distinct map[string]struct{}
	samples  []interface{}
	viol     map[string]*Violation
	violN    map[string]int
	skipWhy  map[string]int64
	Extra    map[string]interface{}
	Assume   []string
	Rule     string

	// HangDescribe renders input i of the enumeration in progress for a hang report (must not execute it).
	HangDescribe func(i int64) (what string, c interface{})
}

// HangLimit is how long one single input may run before the run is aborted with a "hang" violation. Inputs
// take milliseconds; the limit only exists so that a call that never returns is reported instead of waited for.
func HangLimit() time.Duration {
	if s := os.Getenv("VERIF_HANG_S"); s != "" {
		if n, err := strconv.Atoi(s); err == nil && n > 0 {
			return time.Duration(n) * time.Second
		}
	}
	return 120 * time.Second
}

// NewRun reads tier/seed from the environment-independent arguments.
func NewRun(prop, tier string) *Run {
	seed, _ := strconv.ParseInt(os.Getenv("VERIF_SEED"), 10, 64)
	r := &Run{Prop: prop, Tier: tier, Seed: seed, Start: time.Now(),
		distinct: map[string]struct{}{}, viol: map[string]*Violation{}, violN: map[string]int{},
		skipWhy: map[string]int64{}, Extra: map[string]interface{}{}}
	budget := 150 * time.Second
	if tier == "thorough" {
		budget = 25 * time.Minute
	}
	if s := os.Getenv("VERIF_BUDGET_S"); s != "" {
		if n, err := strconv.Atoi(s); err == nil {
			budget = time.Duration(n) * time.Second
		}
	}
	r.Deadline = r.Start.Add(budget)
	return r
}

func (r *Run) Thorough() bool { return r.Tier == "thorough" }

// Eval counts one executed case.
func (r *Run) Eval() { r.evals.Add(1) }
func (r *Run) EvalN(n int64) { r.evals.Add(n) }
func (r *Run) Evals() int64 { return r.evals.Load() }

// Skip counts a generated case that was left out as unspecified / ambiguous.
func (r *Run) Skip(why string) {
	r.skipped.Add(1)
	r.mu.Lock()
	r.skipWhy[why]++
	r.mu.Unlock()
}

// Distinct records an observed outcome of a non-trivial case.
func (r *Run) Distinct(key string) {
	if len(key) > 64 {
		h := sha1.Sum([]byte(key))
		key = hex.EncodeToString(h[:])
	}
	r.mu.Lock()
	r.distinct[key] = struct{}{}
	r.mu.Unlock()
}

// Sample keeps a few of the actual cases for the evidence file.
func (r *Run) Sample(s interface{}) {
	r.mu.Lock()
	if len(r.samples) < 12 {
		r.samples = append(r.samples, s)
	}
	r.mu.Unlock()
}

func (r *Run) WantSample() bool {
	r.mu.Lock()
	defer r.mu.Unlock()
	return len(r.samples) < 12
}

// Expired reports whether the soft budget is used up; it also marks the run non-exhaustive.
func (r *Run) Expired() bool {
	if time.Now().After(r.Deadline) {
		r.truncated.Store(true)
		return true
	}
	return false
}
func (r *Run) MarkTruncated() { r.truncated.Store(true) }

// Violate records a violation (deduplicated by signature).
func (r *Run) Violate(v Violation) {
	if v.Sig == "" {
		b, _ := json.Marshal(v.Case)
		h := sha1.Sum(b)
		v.Sig = "case-" + hex.EncodeToString(h[:6])
	}
	if triage {
		fmt.Fprintf(os.Stderr, "TRIAGE %s\t%s\n", v.Sig, oneLine(v.What))
	}
	r.mu.Lock()
	defer r.mu.Unlock()
	r.violN[v.Sig]++
	if _, ok := r.viol[v.Sig]; !ok {
		if len(r.viol) < 400 {
			vv := v
			r.viol[v.Sig] = &vv
		}
	}
}

func (r *Run) ViolationCount() int {
	r.mu.Lock()
	defer r.mu.Unlock()
	return len(r.viol)
}

func loadFindings() findingsFile {
	var f findingsFile
	b, err := os.ReadFile(filepath.Join(VerifDir, "known_findings.json"))
	if err == nil {
		_ = json.Unmarshal(b, &f)
	}
	return f
}

// Finish writes evidence and replay files, prints the verdict lines, and returns the exit code.
func (r *Run) Finish(cov map[string]interface{}) int {
	ff := loadFindings()
	known := map[string]Finding{}
	for _, f := range ff.Open {
		if f.Property == r.Prop {
			known[f.Sig] = f
		}
	}
	r.mu.Lock()
	sigs := make([]string, 0, len(r.viol))
	for s := range r.viol {
		sigs = append(sigs, s)
	}
	sort.Strings(sigs)
	nNew, nKnown := 0, 0
	var lines []string
	for _, s := range sigs {
		v := r.viol[s]
		if f, ok := known[s]; ok {
			nKnown++
			lines = append(lines, fmt.Sprintf("KNOWN-FINDING: property=%s sig=%s %s (%d cases)", r.Prop, s, f.What, r.violN[s]))
			continue
		}
		nNew++
		dir := filepath.Join(VerifDir, "replays", r.Prop)
		_ = os.MkdirAll(dir, 0o755)
		p := filepath.Join(dir, sanitize(s)+".json")
		b, _ := json.MarshalIndent(map[string]interface{}{"property": r.Prop, "sig": s, "what": v.What, "cases_with_this_signature": r.violN[s], "case": v.Case}, "", " ")
		_ = os.WriteFile(p, b, 0o644)
		lines = append(lines, fmt.Sprintf("VIOLATION property=%s replay=%s  # %s", r.Prop, p, oneLine(v.What)))
	}
	r.mu.Unlock()

	if cov == nil {
		cov = map[string]interface{}{}
	}
	r.mu.Lock()
	cov["evaluations"] = r.evals.Load()
	cov["distinct_nontrivial"] = len(r.distinct)
	if _, ok := cov["rule"]; !ok {
		cov["rule"] = r.Rule
	}
	if len(r.samples) == 0 {
		r.samples = append(r.samples, "no case sampled")
	}
	cov["samples"] = r.samples
	if _, ok := cov["exhaustive"]; !ok {
		cov["exhaustive"] = true
	}
	if r.truncated.Load() {
		cov["exhaustive"] = false
		cov["budget_hit"] = true
	}
	cov["skipped_unspecified"] = r.skipped.Load()
	if len(r.skipWhy) > 0 {
		cov["skipped_reasons"] = r.skipWhy
	}
	cov["known_findings_hit"] = nKnown
	for k, v := range r.Extra {
		cov[k] = v
	}
	r.mu.Unlock()
	ev := map[string]interface{}{
		"property_id": r.Prop,
		"tier":        r.Tier,
		"seed":        r.Seed,
		"level":       "model_checking",
		"coverage":    cov,
		"assumptions": append([]string{"bounded exhaustive enumeration: nothing outside the stated alphabet and bounds is covered"}, r.Assume...),
		"wall_s":      time.Since(r.Start).Seconds(),
		"violations":  nNew,
	}
	_ = os.MkdirAll(filepath.Join(VerifDir, "evidence"), 0o755)
	b, _ := json.MarshalIndent(ev, "", " ")
	if err := os.WriteFile(filepath.Join(VerifDir, "evidence", r.Prop+".json"), b, 0o644); err != nil {
		fmt.Fprintln(os.Stderr, "cannot write evidence:", err)
	}
	for _, l := range lines {
		fmt.Println(l)
	}
	fmt.Printf("%s %s: evaluations=%d distinct=%d skipped=%d exhaustive=%v known=%d new=%d wall=%.1fs\n",
		r.Prop, r.Tier, r.evals.Load(), len(r.distinct), r.skipped.Load(), cov["exhaustive"], nKnown, nNew, time.Since(r.Start).Seconds())
	if nNew > 0 {
		return 1
	}
	return 0
}

func sanitize(s string) string {
	out := make([]byte, 0, len(s))
	for i := 0; i < len(s) && i < 80; i++ {
		c := s[i]
		if c >= 'a' && c <= 'z' || c >= 'A' && c <= 'Z' || c >= '0' && c <= '9' || c == '-' || c == '_' || c == '.' {
			out = append(out, c)
		} else {
			out = append(out, '_')
		}
	}
	return string(out)
}

func oneLine(s string) string {
	b := []byte(s)
	for i, c := range b {
		if c == '\n' || c == '\r' {
			b[i] = ' '
		}
	}
	if len(b) > 300 {
		b = append(b[:300], "..."...)
	}
	return string(b)
}

// Workers is the number of parallel enumerator goroutines.
func Workers() int {
	if s := os.Getenv("VERIF_WORKERS"); s != "" {
		if n, err := strconv.Atoi(s); err == nil && n > 0 {
			return n
		}
	}
	n := runtime.NumCPU()
	if n > 16 {
		n = 16
	}
	return n
}

// ParallelFor runs fn(i) for every i in [0,n), in chunks handed to Workers()
// goroutines. Coverage does not depend on scheduling: every index is visited
// unless the run's budget expires (then the run is marked non-exhaustive).
func (r *Run) ParallelFor(n int64, fn func(i int64)) {
	const chunk = 256
	var next atomic.Int64
	var wg sync.WaitGroup
	nw := Workers()
	cur := make([]atomic.Int64, nw)   // index in progress per worker, -1 = none
	since := make([]atomic.Int64, nw) // its start (unix nanoseconds)
	for w := range cur {
		cur[w].Store(-1)
	}
	stop := make(chan struct{})
	defer close(stop)
	describe := r.HangDescribe
	go func() {
		limit := HangLimit()
		tick := time.NewTicker(2 * time.Second)
		defer tick.Stop()
		for {
			select {
			case <-stop:
				return
			case <-tick.C:
			}
			for w := range cur {
				i := cur[w].Load()
				if i < 0 || time.Since(time.Unix(0, since[w].Load())) < limit {
					continue
				}
				if cur[w].Load() != i {
					continue
				}
				// one input does not return: the goroutine cannot be stopped, so report and end the run here
				what, c := fmt.Sprintf("input #%d", i), interface{}(map[string]interface{}{"index": i})
				if describe != nil {
					what, c = describe(i)
				}
				r.Violate(Violation{Sig: "hang", What: fmt.Sprintf("%s: the call does not return (no answer within %s)", what, limit), Case: c})
				os.Exit(r.Finish(map[string]interface{}{"exhaustive": false, "aborted": "one input did not return"}))
			}
		}
	}()
	for w := 0; w < nw; w++ {
		wg.Add(1)
		w := w
		go func() {
			defer wg.Done()
			defer cur[w].Store(-1)
			for {
				lo := next.Add(chunk) - chunk
				if lo >= n {
					return
				}
				if r.Expired() {
					return
				}
				hi := lo + chunk
				if hi > n {
					hi = n
				}
				for i := lo; i < hi; i++ {
					since[w].Store(time.Now().UnixNano())
					cur[w].Store(i)
					fn(i)
				}
				cur[w].Store(-1)
			}
		}()
	}
	wg.Wait()
}

// Radix decodes index i over the given radices (least significant first).
func Radix(i int64, radices ...int) []int {
	out := make([]int, len(radices))
	for k, r := range radices {
		out[k] = int(i % int64(r))
		i /= int64(r)
	}
	return out
}

// Product is the size of the mixed-radix space.
func Product(radices ...int) int64 {
	p := int64(1)
	for _, r := range radices {
		p *= int64(r)
	}
	return p
}

// Hash is a short stable hash for keys.
func Hash(s string) string {
	h := sha1.Sum([]byte(s))
	return hex.EncodeToString(h[:8])
}
