package core

import (
	"sync/atomic"
	"bufio"
	"bytes"
	"context"
	"encoding/json"
	"fmt"
	"os"
	"os/exec"
	"strconv"
	"strings"
	"sync"
	"time"
)

// Crash-isolated enumeration: index ranges are handed to worker subprocesses
// (the same binary, "mc worker <kind> <space> <lo> <hi>"). A worker that dies
// (panic in a foreign goroutine, stack overflow, fatal error) or exceeds the
// batch deadline is bisected until the single offending index is isolated; that
// index is then re-run alone before it is believed.

// WorkerOut is what a worker process prints, one JSON object per line.
type WorkerOut struct {
	V     *Violation `json:"v,omitempty"`     // a violation
	Index int64      `json:"i,omitempty"`     // its index
	S     interface{} `json:"s,omitempty"`    // a sample
	D     []string   `json:"d,omitempty"`     // distinct keys seen in this batch
	Hang  *int64     `json:"hang,omitempty"`  // the worker gave up on this index (per-input deadline) and exited
	Done  bool       `json:"done,omitempty"`  // final line
	Evals int64      `json:"evals,omitempty"`
	Skips map[string]int64 `json:"skips,omitempty"`
}

// WorkerEmit is used inside a worker to report results.
type WorkerEmit struct {
	cur      atomic.Int64
	curStart atomic.Int64
	w     *bufio.Writer
	mu    sync.Mutex
	dist  map[string]bool
	evals int64
	skips map[string]int64
	nSamp int
}

func NewWorkerEmit() *WorkerEmit {
	e := &WorkerEmit{w: bufio.NewWriterSize(os.Stdout, 1<<16), dist: map[string]bool{}, skips: map[string]int64{}}
	e.cur.Store(-1)
	return e
}

func (e *WorkerEmit) line(o WorkerOut) {
	b, _ := json.Marshal(o)
	e.w.Write(b)
	e.w.WriteByte('\n')
}

func (e *WorkerEmit) Violate(i int64, v Violation) {
	e.mu.Lock()
	defer e.mu.Unlock()
	e.line(WorkerOut{V: &v, Index: i})
	e.w.Flush()
}
func (e *WorkerEmit) Eval()           { e.evals++ }
func (e *WorkerEmit) Skip(why string) { e.skips[why]++ }
func (e *WorkerEmit) Distinct(k string) {
	if len(e.dist) < 5000 {
		e.dist[k] = true
	}
}
func (e *WorkerEmit) Sample(s interface{}) {
	if e.nSamp < 2 {
		e.nSamp++
		e.line(WorkerOut{S: s})
	}
}
// Watch arms a per-input deadline: call Begin(i) before each input. If one input runs longer than d the
// worker reports {"hang": i} and exits, so the driver can record it and continue behind it.
func (e *WorkerEmit) Watch(d time.Duration) {
	go func() {
		for {
			time.Sleep(d / 4)
			cur := e.cur.Load()
			if cur < 0 {
				continue
			}
			if time.Since(time.Unix(0, e.curStart.Load())) > d {
				e.mu.Lock()
				e.line(WorkerOut{Hang: &cur})
				e.w.Flush()
				os.Exit(3)
			}
		}
	}()
}

// Begin marks the start of input i (for Watch).
func (e *WorkerEmit) Begin(i int64) {
	e.curStart.Store(time.Now().UnixNano())
	e.cur.Store(i)
}

func (e *WorkerEmit) Finish() {
	e.cur.Store(-1)
	var ks []string
	for k := range e.dist {
		ks = append(ks, k)
	}
	e.line(WorkerOut{Done: true, Evals: e.evals, D: ks, Skips: e.skips})
	e.w.Flush()
}

// WorkerSpace describes one enumerated space for the driver.
type WorkerSpace struct {
	Kind  string // worker kind (first argument after "worker")
	Name  string
	Total int64
	Batch int64
	// Timeout for one batch; a batch that exceeds it is bisected (hang detection).
	Timeout time.Duration
	// Describe renders index i for a crash report (run in the driver; must not crash).
	Describe func(i int64) interface{}
	// CrashSig may recognise the crash of a single input (by the input and the worker's stderr) and return
	// the signature of a recorded finding; such a crash is accepted after one run.
	CrashSig func(i int64, stderr string) string
}

func selfExe() string {
	p, err := os.Executable()
	if err != nil {
		return os.Args[0]
	}
	return p
}

type batchResult struct {
	ok     bool
	reason string
	outs   []WorkerOut
	stderr string
}

func runBatch(sp *WorkerSpace, lo, hi int64, timeout time.Duration) batchResult {
	ctx, cancel := context.WithTimeout(context.Background(), timeout)
	defer cancel()
	cmd := exec.CommandContext(ctx, selfExe(), "worker", sp.Kind, sp.Name, strconv.FormatInt(lo, 10), strconv.FormatInt(hi, 10))
	cmd.Env = append(os.Environ(), "GOMAXPROCS=1", "GOTRACEBACK=single")
	var stdout, stderr bytes.Buffer
	cmd.Stdout, cmd.Stderr = &stdout, &stderr
	err := cmd.Run()
	res := batchResult{stderr: head(stderr.String(), 2500)}
	sc := bufio.NewScanner(&stdout)
	sc.Buffer(make([]byte, 1<<20), 1<<26)
	done := false
	for sc.Scan() {
		var o WorkerOut
		if json.Unmarshal(sc.Bytes(), &o) == nil {
			res.outs = append(res.outs, o)
			if o.Done {
				done = true
			}
		}
	}
	switch {
	case ctx.Err() == context.DeadlineExceeded:
		res.reason = fmt.Sprintf("no answer within %s (hang)", timeout)
	case err != nil:
		res.reason = "worker died: " + err.Error()
	case !done:
		res.reason = "worker ended without a final report"
	default:
		res.ok = true
	}
	return res
}

func head(s string, n int) string {
	if len(s) > n {
		return s[:n] + "..."
	}
	return s
}

// RunWorkers enumerates the whole space through worker subprocesses.
func (r *Run) RunWorkers(sp *WorkerSpace) {
	if sp.Timeout == 0 {
		sp.Timeout = 120 * time.Second
	}
	type job struct{ lo, hi int64 }
	jobs := make(chan job, 64)
	var wg sync.WaitGroup
	var hangs atomic.Int64
	absorb := func(res batchResult) {
		for _, o := range res.outs {
			switch {
			case o.Hang != nil:
				// handled by the caller (hungAt)
			case o.V != nil:
				r.Violate(*o.V)
			case o.S != nil:
				r.Sample(o.S)
			case o.Done:
				r.EvalN(o.Evals)
				for _, k := range o.D {
					r.Distinct(sp.Name + "\x00" + k)
				}
				for why, n := range o.Skips {
					r.skipped.Add(n)
					r.mu.Lock()
					r.skipWhy[why] += n
					r.mu.Unlock()
				}
			}
		}
	}
	var isolated, unisolated atomic.Int64
	var isolate func(lo, hi int64, first batchResult)
	isolate = func(lo, hi int64, first batchResult) {
		if hi-lo == 1 && sp.CrashSig != nil {
			if sig := sp.CrashSig(lo, first.stderr); sig != "" {
				var d interface{}
				if sp.Describe != nil {
					d = sp.Describe(lo)
				}
				r.Violate(Violation{Sig: sig, What: fmt.Sprintf("[%s #%d] the process does not survive this input: %s; %s", sp.Name, lo, first.reason, oneLine(firstLines(first.stderr, 2))),
					Case: map[string]interface{}{"space": sp.Name, "index": lo, "input": d, "reason": first.reason}})
				r.Eval()
				return
			}
		}
		if isolated.Load() >= 12 {
			// enough single inputs have been pinned down in this space: count the rest per failing batch
			unisolated.Add(1)
			r.Violate(Violation{Sig: "more-crashing-batches-" + sp.Name, What: fmt.Sprintf("[%s] further batches kill or hang the worker (e.g. indexes %d..%d); not isolated one by one", sp.Name, lo, hi),
				Case: map[string]interface{}{"space": sp.Name, "lo": lo, "hi": hi}})
			return
		}
		if hi-lo == 1 {
			isolated.Add(1)
			// re-run the single input alone, three times, before believing the crash
			fails := 0
			var last batchResult
			for k := 0; k < 3; k++ {
				last = runBatch(sp, lo, hi, sp.Timeout)
				if !last.ok {
					fails++
				}
			}
			if fails == 3 {
				var d interface{}
				if sp.Describe != nil {
					d = sp.Describe(lo)
				}
				sig := "crash"
				if strings.Contains(last.reason, "hang") {
					sig = "hang"
				}
				r.Violate(Violation{Sig: crashSig(sig, last.stderr), What: fmt.Sprintf("[%s #%d] the process does not survive this input: %s; %s", sp.Name, lo, last.reason, oneLine(firstLines(last.stderr, 3))),
					Case: map[string]interface{}{"space": sp.Name, "index": lo, "input": d, "reason": last.reason, "stderr": last.stderr}})
				r.Eval()
			} else if fails == 0 {
				absorb(last)
			} else {
				r.Violate(Violation{Sig: "flaky-crash-" + sp.Name, What: fmt.Sprintf("[%s #%d] worker fails %d of 3 times on this input alone", sp.Name, lo, fails), Case: map[string]interface{}{"space": sp.Name, "index": lo}})
			}
			return
		}
		mid := lo + (hi-lo)/2
		for _, half := range [][2]int64{{lo, mid}, {mid, hi}} {
			res := runBatch(sp, half[0], half[1], sp.Timeout)
			if res.ok {
				absorb(res)
			} else {
				isolate(half[0], half[1], res)
			}
		}
	}
	hungAt := func(res batchResult) int64 {
		for _, o := range res.outs {
			if o.Hang != nil {
				return *o.Hang
			}
		}
		return -1
	}
	for w := 0; w < Workers(); w++ {
		wg.Add(1)
		go func() {
			defer wg.Done()
			for j := range jobs {
				lo := j.lo
				for lo < j.hi {
					if hangs.Load() > 20 || unisolated.Load() > 20 || r.Expired() {
						// the verdict is settled (inputs that hang or kill the process have been recorded): waiting
						// out the deadline of every further one would take for ever; the run is marked non-exhaustive
						r.truncated.Store(true)
						break
					}
					res := runBatch(sp, lo, j.hi, sp.Timeout)
					if res.ok {
						absorb(res)
						break
					}
					if h := hungAt(res); h >= lo {
						// the worker gave up on one input: record it, keep what it did before, continue behind it
						absorb(res)
						var d interface{}
						if sp.Describe != nil {
							d = sp.Describe(h)
						}
						if hangs.Add(1) <= 20 {
							r.Violate(Violation{Sig: "hang-" + sp.Name, What: fmt.Sprintf("[%s #%d] this input alone exceeds the per-input deadline (the call does not return)", sp.Name, h),
								Case: map[string]interface{}{"space": sp.Name, "index": h, "input": d, "reason": "per-input deadline exceeded"}})
						}
						r.Eval()
						lo = h + 1
						continue
					}
					isolate(lo, j.hi, res)
					break
				}
			}
		}()
	}
	for lo := int64(0); lo < sp.Total; lo += sp.Batch {
		if r.Expired() {
			break
		}
		hi := lo + sp.Batch
		if hi > sp.Total {
			hi = sp.Total
		}
		jobs <- job{lo, hi}
	}
	close(jobs)
	wg.Wait()
}

func firstLines(s string, n int) string {
	ls := strings.Split(strings.TrimSpace(s), "\n")
	if len(ls) > n {
		ls = ls[:n]
	}
	return strings.Join(ls, " | ")
}

// crashSig derives a coarse signature from the first lines of the crash output
// (panic message / fatal error), so that one defect does not produce thousands of files.
func crashSig(kind, stderr string) string {
	for _, l := range strings.Split(stderr, "\n") {
		l = strings.TrimSpace(l)
		if strings.HasPrefix(l, "panic:") || strings.HasPrefix(l, "fatal error:") || strings.HasPrefix(l, "runtime:") {
			l = strings.Map(func(r rune) rune {
				if r >= '0' && r <= '9' {
					return 'N'
				}
				return r
			}, l)
			if len(l) > 70 {
				l = l[:70]
			}
			return kind + ":" + l
		}
	}
	return kind
}
