#!/bin/bash
# ./run.sh <Cxx> quick|thorough     run one check against /repo's current working tree
# ./run.sh replay <file>            re-run one recorded violation without the explorer
# ./run.sh setup                    warm the build cache (plain and -race)
set -u
cd "$(dirname "$0")"
export VERIF_DIR="$(pwd)"
export GOFLAGS=-mod=mod GOPROXY=off GOSUMDB=off GOTOOLCHAIN=local
export GOCACHE="${GOCACHE:-$HOME/.cache/go-build}"
BIN="$VERIF_DIR/bin"
mkdir -p "$BIN" "$VERIF_DIR/evidence"

build() {
  (cd mc && go build -o "$BIN/mc" ./cmd/mc) || { echo "BUILD-FAILED: harness does not build against /repo's current tree" >&2; return 3; }
}

case "${1:-}" in
  setup)
    build || exit 1
    ./checks/C11.sh build || exit 1   # warms the overlay build and the -race build
    echo "setup ok"
    ;;
  replay)
    build || exit 1
    exec "$BIN/mc" replay "$2"
    ;;
  C*)
    build || exit 1
    if [ -x "./checks/$1.sh" ]; then exec "./checks/$1.sh" "${2:-quick}"; fi
    exec "$BIN/mc" "$1" "${2:-quick}"
    ;;
  *)
    echo "usage: $0 <Cxx> quick|thorough | replay <file> | setup" >&2; exit 2;;
esac
