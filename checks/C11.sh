#!/bin/bash
# C11: controlled-scheduler exploration (sync shim injected by go build -overlay) + free-running -race pass.
set -u
tier="${1:-quick}"
V="${VERIF_DIR:-/verif}"
export GOFLAGS=-mod=mod GOPROXY=off GOSUMDB=off GOTOOLCHAIN=local
OV="$V/bin/c11ov"
rm -rf "$OV"; mkdir -p "$OV"
# every non-test file of package jet that imports "sync" is replaced by a copy whose only change is the import line
entries=""
for f in /repo/*.go; do
  case "$f" in *_test.go) continue;; esac
  if grep -qE '^\s*"sync"\s*$|^import "sync"$' "$f"; then
    b=$(basename "$f")
    sed -E 's#^(\s*)"sync"\s*$#\1sync "github.com/CloudyKit/jet/v6/verifsync"#; s#^import "sync"$#import sync "github.com/CloudyKit/jet/v6/verifsync"#' "$f" > "$OV/$b"
    entries="$entries\"$f\": \"$OV/$b\","
  fi
done
cp "$V/mc/overlay/verifsync.go.txt" "$OV/verifsync.go"
echo "{\"Replace\": {$entries \"/repo/verifsync/verifsync.go\": \"$OV/verifsync.go\"}}" > "$OV/overlay.json"
cd "$V/mc"
hooks=on
if ! go build -overlay "$OV/overlay.json" -o "$V/bin/mc-c11" ./cmd/c11 2>"$OV/build.err"; then
  hooks=off
  echo "C11: the sync overlay does not compile against the current sources (see $OV/build.err); running the free-running race pass only" >&2
fi
go build -race -o "$V/bin/mc-c11race" ./cmd/c11race || { echo "BUILD-FAILED: c11race" >&2; exit 3; }
if [ "$tier" = build ]; then echo "C11 binaries built (hooks=$hooks)"; exit 0; fi
if [ "$hooks" = on ]; then
  # the explorer executes jet in-process: if it dies (fatal error in jet code) it is run once more, and a
  # second death is the finding
  budget=${VERIF_BUDGET_S:-150}; [ "$tier" = thorough ] && budget=${VERIF_BUDGET_S:-1500}
  for attempt in 1 2; do
    # (a thread spinning inside jet without reaching a scheduling point never hands control back: hard deadline)
    C11_RACE_BIN="$V/bin/mc-c11race" timeout -k 10 $((2*budget+300)) "$V/bin/mc-c11" "$tier" 2> "$OV/run.err"; rc=$?
    cat "$OV/run.err" >&2
    if [ $rc -eq 0 ] || [ $rc -eq 1 ]; then exit $rc; fi
    echo "C11: the explorer's process ended abnormally (exit $rc, attempt $attempt)" >&2
  done
  exec "$V/bin/mc" died C11 "$tier" "exit status $rc; $(head -c 3000 "$OV/run.err")"
else
  exec "$V/bin/mc" C11-raceonly "$tier"
fi
